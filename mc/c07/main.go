// C07 (sequential part) — replication reproduces exactly the primary's history, nothing else.
//
// Explicit-state BREADTH-FIRST search over an event alphabet. Every transition calls the real handlers
// (store.ReplicateTx / DiscardPrecommittedTxsSince / AllowCommitUpto / Close+Open, and the pkg/database
// equivalents incl. ExportTxByID with a ReplicaState); every state is re-created by replaying its event path on
// fresh scratch directories; states are deduplicated by a canonical key (committed id, precommitted id, Alh list,
// index answer per key after indexing caught up, log residue); the oracle runs after every event.
//
// Actors: a primary with a FIXED history of k <= 4 transactions prepared once (configurations: header v1 with
// multi-entry / empty value / KV metadata / tx metadata, header v0, a value-truncated primary whose old txs export
// digest-only, a small replication window, two forked primaries sharing tx 1 feeding a replica that uses the
// external commit allowance), and one replica. A second configuration set works on database.DB (dblevel.go):
// asynchronous replica, and SYNCHRONOUS replication (primary syncAcks=1|2, replicas with external allowance).
//
// Alphabet (one call each): deliver(i) for ANY tx i of a primary (out of order, duplicate, beyond the window),
// deliver(alter_j(i)) for every operator j of wire.go (one byte flipped in each header field, in klen / key /
// kv-metadata / vlen / value / truncation flag; zero-length truncation field; last byte dropped; trailer dropped;
// byte appended; header of tx i spliced on the body of tx i+1 and vice versa), each with skipIntegrityCheck false
// and true; replica restart; DiscardPrecommittedTxsSince(j); AllowCommitUpto(j) (mirroring the Alh guard of
// database.AllowCommitUpto); wait-for-indexing. A delivery whose header id is beyond precommitted+1 would wait
// for its predecessor forever in a sequential world: it gets a context that is cancelled at the first wait.
//
// Bound: all event sequences up to depth 6 (quick) / 10 (thorough), BFS with state deduplication; when the frontier
// empties earlier the reachable state space is closed and the result holds for every depth.
//
// Oracle (after every event, against a boring reference model: lists of committed / precommitted labels):
//
//	(1) committed / precommitted ids and every Alh equal the model; every committed tx re-reads byte-identical to the
//	    primary's tx of the same id (storeh ledger + CheckHistory: dense ids, PrevAlh chain, BlRoot, CommittedAlh);
//	    values are compared except where the primary itself exported digest-only;
//	(2) a rejected event leaves the state key unchanged; an accepted delivery (integrity checks on) must have
//	    produced exactly the primary's tx of that id — otherwise "altered-accepted"; bytes that still decode to the
//	    same transaction and extend the chain must be accepted; with skipIntegrityCheck only the chain (CheckHistory)
//	    is demanded and a state that diverged by permission is not explored further;
//	(3) duplicates never change state, a different tx for an existing id is rejected;
//	(4) after indexing caught up Get/History of every key equal those of a primary holding the same prefix, and
//	    DualProof(i, committed) of the replica verifies against the primary's Alh for every i;
//	(5) a clean restart keeps every precommitted tx the replica reported as durable; (6) no panic.
package main

import (
	"bytes"
	"context"
	"crypto/sha256"
	"encoding/binary"
	"errors"
	"fmt"
	"os"
	"runtime/debug"
	"sort"
	"strings"
	"sync/atomic"
	"time"

	"github.com/codenotary/immudb/embedded/store"
	"verif/mc/lib"
	"verif/mc/storeh"
)

var c *lib.Check

// ---------- generic BFS ----------

type config interface {
	Name() string
	NEvents() int
	EventName(i int) string
	// Run replays path on fresh objects, runs the oracle after every event and returns the canonical key of the
	// reached state; stop = do not extend (violation, or state not comparable any more).
	Run(path []int) (key string, stop bool)
}

func names(cf config, path []int) string {
	var s []string
	for _, e := range path {
		s = append(s, cf.EventName(e))
	}
	return strings.Join(s, " ; ")
}

type node struct {
	path []int
	key  string
}

func bfs(cf config, depth int) {
	k0, stop := cf.Run(nil)
	if stop {
		return
	}
	seen := map[string]bool{k0: true}
	frontier := []node{{nil, k0}}
	var trans int64
	closedAt := -1
	for d := 1; d <= depth && len(frontier) > 0; d++ {
		ne := cf.NEvents()
		type res struct {
			key  string
			stop bool
			done bool
		}
		out := make([]res, len(frontier)*ne)
		c.ParallelFor(len(out), func(j int) {
			if c.Expired() {
				return
			}
			p := append(append([]int{}, frontier[j/ne].path...), j%ne)
			k, s := cf.Run(p)
			out[j] = res{k, s, true}
		})
		var next []node
		for j, r := range out {
			if !r.done {
				continue
			}
			trans++
			c.Eval(cf.Name() + "|" + frontier[j/ne].key + "|" + cf.EventName(j%ne))
			if r.key == frontier[j/ne].key {
				c.Add("transitions_without_state_change", 1)
			}
			if r.stop || seen[r.key] {
				continue
			}
			seen[r.key] = true
			next = append(next, node{append(append([]int{}, frontier[j/ne].path...), j%ne), r.key})
		}
		if c.Expired() {
			c.CapHit(fmt.Sprintf("%s: time budget reached at depth %d of %d", cf.Name(), d, depth))
			break
		}
		frontier = next
		if len(next) == 0 {
			closedAt = d
		}
		c.Set("depth_completed/"+cf.Name(), d)
	}
	if closedAt > 0 {
		c.Set("state_space_closed_at_depth/"+cf.Name(), closedAt)
	}
	c.Set("states/"+cf.Name(), len(seen))
	c.Set("alphabet_size/"+cf.Name(), cf.NEvents())
	c.AddStates(int64(len(seen)), trans)
}

// ---------- contexts ----------

var closedCh = func() chan struct{} { ch := make(chan struct{}); close(ch); return ch }()

// cowCtx is cancelled at the moment somebody starts waiting on it (deterministic stand-in for "the caller gave up
// while the delivery was waiting for a predecessor that never arrives").
type cowCtx struct {
	context.Context
	waited atomic.Bool
}

func (x *cowCtx) Done() <-chan struct{} { x.waited.Store(true); return closedCh }
func (x *cowCtx) Err() error {
	if x.waited.Load() {
		return context.Canceled
	}
	return nil
}

// wouldWait: the header id (first field of the header, whatever the rest looks like) is beyond precommitted+1, so
// the real code may wait for the predecessor.
func wouldWait(data []byte, precommitted uint64) bool {
	return len(data) >= 12 && binary.BigEndian.Uint64(data[4:]) > precommitted+1
}

const watchdog = 60 * time.Second // an event that blocks this long in a sequential world is a deadlock

func bgCtx() (context.Context, context.CancelFunc) {
	return context.WithTimeout(context.Background(), watchdog)
}

// ---------- primaries (store level) ----------

type entSpec struct{ K, V, MD string } // MD: "", "deleted", "nonindexable"
type txSpec struct {
	Ents []entSpec
	TxMD string // "", "extra", "truncated-id"
}

var fixedTime = func() time.Time { return time.Unix(1700000000, 0) }

func commitSpec(st *store.ImmuStore, sp txSpec) {
	ctx := context.Background()
	tx, err := st.NewWriteOnlyTx(ctx)
	must(err)
	switch sp.TxMD {
	case "extra":
		md := store.NewTxMetadata()
		must(md.WithExtra([]byte("xtra")))
		tx.WithMetadata(md)
	case "truncated-id":
		tx.WithMetadata(store.NewTxMetadata().WithTruncatedTxID(1))
	}
	for _, e := range sp.Ents {
		var md *store.KVMetadata
		switch e.MD {
		case "deleted":
			md = store.NewKVMetadata()
			must(md.AsDeleted(true))
		case "nonindexable":
			md = store.NewKVMetadata()
			must(md.AsNonIndexable(true))
		}
		must(tx.Set([]byte(e.K), md, []byte(e.V)))
	}
	_, err = tx.Commit(ctx)
	must(err)
}

func must(err error) {
	if err != nil {
		panic(err)
	}
}

type primary struct {
	name       string
	k          int
	recs       []*storeh.TxRec // by id
	exp        [][]byte        // by id
	dec        []*wTx
	digestOnly []bool
}

type label struct{ Src, Tx int }

func (l label) String() string { return fmt.Sprintf("%c%d", 'P'+rune(l.Src), l.Tx) }

var scratch []string

func openPrimary(opts *store.Options, specs []txSpec) *store.ImmuStore {
	dir := lib.Scratch("c07p")
	scratch = append(scratch, dir)
	st, err := store.Open(dir, opts.WithTimeFunc(fixedTime))
	must(err)
	for _, sp := range specs {
		commitSpec(st, sp)
	}
	return st
}

// snapshot reads records and exports of a (possibly truncated) primary.
func snapshot(name string, st *store.ImmuStore) *primary {
	k := int(st.LastCommittedTxID())
	p := &primary{name: name, k: k, recs: make([]*storeh.TxRec, k+1), exp: make([][]byte, k+1), dec: make([]*wTx, k+1), digestOnly: make([]bool, k+1)}
	tx := store.NewTx(st.MaxTxEntries(), st.MaxKeyLen())
	for i := 1; i <= k; i++ {
		bs, err := st.ExportTx(uint64(i), false, false, tx)
		must(err)
		p.exp[i] = append([]byte{}, bs...)
		p.dec[i], err = decodeExport(p.exp[i])
		must(err)
		p.digestOnly[i] = p.dec[i].Trunc
		p.recs[i], err = storeh.ReadRec(st, uint64(i), !p.digestOnly[i])
		must(err)
	}
	return p
}

// ---------- store-level configuration ----------

type event struct {
	Kind string // deliver | restart | discard | allow | waitidx
	Src  int
	Tx   int
	Alt  string
	Skip bool
	data []byte
	dec  *wTx // decode of data (nil: undecodable)
	same bool // data still means exactly transaction (Src,Tx)
}

func (e event) String() string {
	switch e.Kind {
	case "deliver":
		s := label{e.Src, e.Tx}.String()
		if e.Alt != "" {
			s = "alter=" + e.Alt + "(" + s + ")"
		}
		if e.Skip {
			s += ",skipIntegrity"
		}
		return "deliver(" + s + ")"
	case "discard", "allow":
		return fmt.Sprintf("%s(%d)", e.Kind, e.Tx)
	}
	return e.Kind
}

type sconfig struct {
	name        string
	prim        []*primary // prim[0] is the primary the replica follows
	ext         bool
	window      int
	events      []event
	keys        []string
	minReadable uint64
	expGet      []map[string]string // by committed count m: key -> Get rendering on a primary holding txs 1..m
	expHist     []map[string]string
	byAlh       map[[sha256.Size]byte]label
	ropts       func() *store.Options
}

func (cf *sconfig) Name() string           { return cf.name }
func (cf *sconfig) NEvents() int           { return len(cf.events) }
func (cf *sconfig) EventName(i int) string { return cf.events[i].String() }

func (cf *sconfig) rec(l label) *storeh.TxRec { return cf.prim[l.Src].recs[l.Tx] }

func deliveries(prims []*primary, alts bool) []event {
	var evs []event
	for s, p := range prims {
		for i := 1; i <= p.k; i++ {
			if s > 0 && bytes.Equal(p.exp[i], prims[0].exp[i]) {
				continue // shared prefix of a fork
			}
			for _, skip := range []bool{false, true} {
				evs = append(evs, event{Kind: "deliver", Src: s, Tx: i, Skip: skip, data: p.exp[i], dec: p.dec[i], same: true})
			}
			if !alts {
				continue
			}
			for _, op := range allOps {
				var next []byte
				if i < p.k {
					next = p.exp[i+1]
				}
				data, ok := alter(op, p.exp[i], next)
				if !ok {
					continue
				}
				d, err := decodeExport(data)
				if err != nil {
					d = nil
				}
				for _, skip := range []bool{false, true} {
					evs = append(evs, event{Kind: "deliver", Src: s, Tx: i, Alt: op, Skip: skip, data: data, dec: d, same: d != nil && d.same(p.dec[i])})
				}
			}
		}
	}
	return evs
}

func getStr(st *store.ImmuStore, key string, minReadable uint64) string {
	v, err := st.Get(context.Background(), []byte(key))
	if err != nil {
		return "err:" + errClass(err)
	}
	return refStr(v, minReadable)
}

func refStr(v store.ValueRef, minReadable uint64) string {
	s := fmt.Sprintf("tx=%d hc=%d", v.Tx(), v.HC())
	if v.KVMetadata() != nil {
		s += fmt.Sprintf(" md=%x", v.KVMetadata().Bytes())
	}
	if v.Tx() >= minReadable {
		val, err := v.Resolve()
		if err != nil {
			return s + " val-err:" + errClass(err)
		}
		s += fmt.Sprintf(" val=%q", val)
	}
	return s
}

func histStr(st *store.ImmuStore, key string, minReadable uint64) string {
	vs, n, err := st.History([]byte(key), 0, false, 100)
	if err != nil {
		return "err:" + errClass(err)
	}
	s := fmt.Sprintf("n=%d", n)
	for _, v := range vs {
		s += " [" + refStr(v, minReadable) + "]"
	}
	return s
}

func errClass(err error) string {
	s := err.Error()
	if len(s) > 70 {
		s = s[:70]
	}
	return strings.ReplaceAll(s, " ", "_")
}

func baseOpts() *store.Options {
	return storeh.SmallOptions().WithAHTOptions(store.DefaultAHTOptions().WithWriteBufferSize(4096).WithSyncThld(64))
}

// newSConfig: specs[0] is the followed primary's history; specs[1:] are forks. trunc>0: TruncateUptoTx(trunc) on
// the followed primary before exporting.
func newSConfig(name string, version int, fileSize int, specs [][]txSpec, trunc uint64, ext bool, window int, alts bool, tweak ...func(*store.Options) *store.Options) *sconfig {
	cf := &sconfig{name: name, ext: ext, window: window, byAlh: map[[sha256.Size]byte]label{}, minReadable: 1}
	tw := func(o *store.Options) *store.Options {
		for _, f := range tweak {
			o = f(o)
		}
		return o
	}
	popts := func() *store.Options {
		o := tw(baseOpts()).WithWriteTxHeaderVersion(version)
		if fileSize > 0 {
			o = o.WithFileSize(fileSize)
		}
		return o
	}
	keyset := map[string]bool{}
	for s, sp := range specs {
		st := openPrimary(popts(), sp)
		if s == 0 && trunc > 0 {
			must(st.TruncateUptoTx(trunc))
		}
		p := snapshot(fmt.Sprintf("%c", 'P'+rune(s)), st)
		must(st.Close())
		cf.prim = append(cf.prim, p)
		for i := 1; i <= p.k; i++ {
			if _, dup := cf.byAlh[p.recs[i].Alh]; !dup {
				cf.byAlh[p.recs[i].Alh] = label{s, i}
			}
			if s == 0 && p.digestOnly[i] {
				cf.minReadable = uint64(i) + 1
			}
		}
		for _, t := range sp {
			for _, e := range t.Ents {
				keyset[e.K] = true
			}
		}
	}
	if trunc > 0 && cf.minReadable == 1 {
		panic("harness: truncation of the primary had no effect (configuration would be vacuous)")
	}
	for k := range keyset {
		cf.keys = append(cf.keys, k)
	}
	sort.Strings(cf.keys)
	// expected query answers for every prefix length, from untruncated twins of the followed primary
	for m := 0; m <= cf.prim[0].k; m++ {
		st := openPrimary(popts(), specs[0][:m])
		for i := 1; i <= m; i++ {
			r, err := storeh.ReadRec(st, uint64(i), false)
			must(err)
			if r.Alh != cf.prim[0].recs[i].Alh {
				panic("harness: prefix twin of the primary is not identical")
			}
		}
		ctx, cancel := bgCtx()
		must(st.WaitForIndexingUpto(ctx, uint64(m)))
		cancel()
		g, h := map[string]string{}, map[string]string{}
		for _, k := range cf.keys {
			g[k], h[k] = getStr(st, k, cf.minReadable), histStr(st, k, cf.minReadable)
		}
		cf.expGet, cf.expHist = append(cf.expGet, g), append(cf.expHist, h)
		must(st.Close())
	}
	cf.ropts = func() *store.Options {
		return tw(baseOpts()).WithExternalCommitAllowance(ext).WithMaxActiveTransactions(window)
	}
	cf.events = deliveries(cf.prim, alts)
	cf.events = append(cf.events, event{Kind: "restart"}, event{Kind: "waitidx"})
	for j := 1; j <= cf.prim[0].k; j++ {
		cf.events = append(cf.events, event{Kind: "discard", Tx: j})
		if ext {
			cf.events = append(cf.events, event{Kind: "allow", Tx: j})
		}
	}
	return cf
}

// ---------- store-level world ----------

type sworld struct {
	cf        *sconfig
	dir       string
	st        *store.ImmuStore
	com, pre  []label
	tail      []label // accepted deliveries physically in the tx log behind the last committed record
	discarded map[label]bool
	path      []int
	step      int
	stop      bool
	wedged    bool // a panic may have left locks held: Close is guarded
	last      bool // oracles run on the last event of a path only: every prefix was checked as a node of its own
}

func (w *sworld) count(k string, n int64) {
	if w.last {
		c.Add(k, n)
	}
}

// skey: state key when the oracle needs it.
func (w *sworld) skey() string {
	if !w.last {
		return ""
	}
	return w.key()
}

func (w *sworld) fail(sig, detail string) {
	ev := w.cf.events[w.path[w.step]]
	c.Violate(lib.Violation{Sig: sig, Detail: fmt.Sprintf("%s\nconfiguration %s, event path: %s\nfailing event: %s", detail, w.cf.name, names(w.cf, w.path[:w.step+1]), ev),
		Replay: replayOf(w.cf, w.path[:w.step+1])})
	w.stop = true
}

func (w *sworld) after() string {
	return "cfg=" + w.cf.name + " after=<" + names(w.cf, w.path[:w.step+1]) + ">"
}

func (w *sworld) alhList() (cid, pid uint64, alhs [][sha256.Size]byte, err error) {
	cid, _ = w.st.CommittedAlh()
	pid, _ = w.st.PrecommittedAlh()
	for i := uint64(1); i <= pid; i++ {
		h, e := w.st.ReadTxHeader(i, true, false)
		if e != nil {
			return cid, pid, alhs, fmt.Errorf("ReadTxHeader(%d, allowPrecommitted): %w", i, e)
		}
		alhs = append(alhs, h.Alh())
	}
	return
}

func (w *sworld) realStr() string {
	cid, pid, alhs, err := w.alhList()
	s := fmt.Sprintf("c=%d,p=%d,[", cid, pid)
	for _, a := range alhs {
		if l, ok := w.cf.byAlh[a]; ok {
			s += l.String() + " "
		} else {
			s += fmt.Sprintf("?%x ", a[:3])
		}
	}
	s = strings.TrimSpace(s) + "]"
	if err != nil {
		s += " " + errClass(err)
	}
	return s
}

// key: canonical state (waits for indexing so that the index part does not depend on goroutine timing).
func (w *sworld) key() string {
	var b strings.Builder
	b.WriteString(w.realStr())
	cid, _ := w.st.CommittedAlh()
	ctx, cancel := bgCtx()
	err := w.st.WaitForIndexingUpto(ctx, cid)
	cancel()
	if err != nil {
		b.WriteString(" idx-wait:" + errClass(err))
	}
	for _, k := range w.cf.keys {
		v, err := w.st.Get(context.Background(), []byte(k))
		if err != nil {
			fmt.Fprintf(&b, " %s:-", k)
		} else {
			fmt.Fprintf(&b, " %s:%d@%d", k, v.Tx(), v.HC())
		}
	}
	if w.cf.ext {
		fmt.Fprintf(&b, " log=%v", w.tail)
	}
	return b.String()
}

func (w *sworld) modelStr() string {
	return fmt.Sprintf("c=%d,p=%d,%v+%v", len(w.com), len(w.com)+len(w.pre), w.com, w.pre)
}

// compare: real ids / Alh chain against the model.
func (w *sworld) compare() {
	cid, pid, alhs, err := w.alhList()
	want := append(append([]label{}, w.com...), w.pre...)
	bad := err != nil || int(cid) != len(w.com) || int(pid) != len(want)
	for i := 0; !bad && i < len(want); i++ {
		bad = alhs[i] != w.cf.rec(want[i]).Alh
	}
	if bad {
		w.fail(fmt.Sprintf("replica-diverged state=%s want=%s %s", w.realStr(), w.modelStr(), w.after()), fmt.Sprintf("replica state %s, reference model %s (err=%v)", w.realStr(), w.modelStr(), err))
	}
}

// invariant: committed history identical to the primary's, queries and proofs agree.
func (w *sworld) invariant() {
	cf := w.cf
	n := len(w.com)
	if n > cf.prim[0].k {
		w.fail("replica-ahead "+w.after(), "replica committed more transactions than the primary")
		return
	}
	l := storeh.NewLedger()
	for i := 1; i <= n; i++ {
		want := *cf.rec(w.com[i-1])
		if cf.prim[0].digestOnly[i] {
			// the value is absent on both sides: its recorded length is not defined by the property
			got, err := storeh.ReadRec(w.st, uint64(i), false)
			if err == nil && len(got.Ents) == len(want.Ents) {
				want.Ents = append([]storeh.EntryRec{}, want.Ents...)
				for e := range want.Ents {
					want.Ents[e].VLen = got.Ents[e].VLen
				}
			}
		}
		l.Acked[uint64(i)] = &want
	}
	if d := l.CheckHistory(w.st, cf.minReadable); d != "" {
		w.fail(fmt.Sprintf("replica-diverged state=%s history %s", w.realStr(), w.after()), "committed history of the replica: "+d)
		return
	}
	ctx, cancel := bgCtx()
	err := w.st.WaitForIndexingUpto(ctx, uint64(n))
	cancel()
	if err != nil {
		w.fail("indexing-stalled "+w.after(), fmt.Sprintf("WaitForIndexingUpto(%d): %v", n, err))
		return
	}
	for _, k := range cf.keys {
		if g := getStr(w.st, k, cf.minReadable); g != cf.expGet[n][k] {
			w.fail(fmt.Sprintf("query-mismatch api=get key=%s %s", k, w.after()), fmt.Sprintf("replica Get(%s) = %s, a primary holding txs 1..%d answers %s", k, g, n, cf.expGet[n][k]))
			return
		}
		if h := histStr(w.st, k, cf.minReadable); h != cf.expHist[n][k] {
			w.fail(fmt.Sprintf("query-mismatch api=history key=%s %s", k, w.after()), fmt.Sprintf("replica History(%s) = %s, primary with txs 1..%d: %s", k, h, n, cf.expHist[n][k]))
			return
		}
	}
	if n > 0 {
		tgt, err := w.st.ReadTxHeader(uint64(n), false, false)
		for i := 1; err == nil && i <= n; i++ {
			var src *store.TxHeader
			if src, err = w.st.ReadTxHeader(uint64(i), false, false); err != nil {
				break
			}
			dp, e := w.st.DualProof(src, tgt)
			if e != nil || !store.VerifyDualProof(dp, uint64(i), uint64(n), cf.prim[0].recs[i].Alh, cf.prim[0].recs[n].Alh) {
				w.fail(fmt.Sprintf("proof-mismatch dualproof(%d,%d) %s", i, n, w.after()), fmt.Sprintf("DualProof(%d,%d) of the replica does not verify against the primary's Alh (err=%v)", i, n, e))
				return
			}
			c.Add("dual_proofs_verified", 1)
		}
		if err != nil {
			w.fail("read-header-failed "+w.after(), err.Error())
		}
	}
}

func (w *sworld) open() error {
	st, err := store.Open(w.dir, w.cf.ropts())
	w.st = st
	return err
}

func (w *sworld) close() {
	if w.st != nil {
		closeGuarded(w.wedged, func() { w.st.Close() })
	}
	os.RemoveAll(w.dir)
}

// closeGuarded: after a panic locks may still be held; Close then runs on the side and is abandoned if it hangs.
func closeGuarded(suspect bool, f func()) {
	if !suspect {
		f()
		return
	}
	done := make(chan struct{})
	go func() { defer close(done); lib.Catch(f) }()
	select {
	case <-done:
	case <-time.After(3 * time.Second):
		c.Add("stores_abandoned_after_panic", 1)
	}
}

func (w *sworld) deliver(ev event) {
	cf := w.cf
	_, pp, alhs, err := w.alhList()
	if err != nil {
		w.fail("read-header-failed "+w.after(), err.Error())
		return
	}
	pAlh := sha256.Sum256(nil)
	if pp > 0 {
		pAlh = alhs[pp-1]
	}
	before := w.skey()
	var ctx context.Context = &cowCtx{Context: context.Background()}
	cancel := func() {}
	if !wouldWait(ev.data, pp) {
		ctx, cancel = bgCtx()
	}
	var hdr *store.TxHeader
	pan := lib.Catch(func() {
		h, e := w.st.ReplicateTx(ctx, ev.data, ev.Skip, false)
		if h != nil {
			cp := *h
			hdr = &cp
		}
		err = e
	})
	cancel()
	if pan != "" {
		w.wedged = true
		w.fail(fmt.Sprintf("panic event=%s cfg=%s", ev, cf.name), "ReplicateTx panicked in state "+w.realStr()+": "+pan)
		return
	}
	if errors.Is(err, context.DeadlineExceeded) {
		w.wedged = true
		w.fail(fmt.Sprintf("blocked event=%s %s", ev, w.after()), "ReplicateTx of a transaction that does not have to wait for a predecessor did not return within the watchdog time")
		return
	}
	after := w.skey()
	extends := ev.dec != nil && ev.dec.ID == pp+1 && ev.dec.PrevAlh == pAlh
	dup := ev.dec != nil && ev.dec.ID <= pp
	if err != nil {
		w.count("outcome/rejected:"+errKind(err), 1)
		if after != before {
			cl := "rejected-with-effect"
			if dup {
				cl = "duplicate-changed-state"
			}
			w.fail(fmt.Sprintf("%s event=%s err=%s %s", cl, ev, errClass(err), w.after()), fmt.Sprintf("ReplicateTx returned %v but the replica state changed:\n before %s\n after  %s", err, before, after))
			return
		}
		if ev.same && extends {
			cl := "in-order-rejected"
			if ev.Alt != "" {
				cl = "invisible-alteration-rejected alter=" + ev.Alt
			}
			w.fail(fmt.Sprintf("%s event=%s err=%s %s", cl, ev, errClass(err), w.after()), fmt.Sprintf("the delivered bytes are exactly transaction %s which extends the replica's chain (%s), but ReplicateTx returned %v", label{ev.Src, ev.Tx}, before, err))
		}
		return
	}
	if hdr == nil {
		w.fail("nil-header event="+ev.String()+" "+w.after(), "ReplicateTx returned neither header nor error")
		return
	}
	if hdr.ID <= pp { // accepted idempotently
		w.count("outcome/accepted-idempotent", 1)
		if after != before {
			w.fail(fmt.Sprintf("duplicate-changed-state event=%s %s", ev, w.after()), fmt.Sprintf("before %s\nafter  %s", before, after))
		} else if !ev.same {
			w.fail(fmt.Sprintf("different-duplicate-accepted event=%s %s", ev, w.after()), "a different transaction for an existing id was reported as replicated")
		}
		return
	}
	// a new transaction pp+1 exists on the replica: it must be the primary's
	want := label{ev.Src, int(pp) + 1}
	ok := int(pp)+1 <= cf.prim[ev.Src].k && hdr.ID == pp+1 && hdr.Alh() == cf.rec(want).Alh
	if !ok {
		if ev.Skip && ev.Alt != "" {
			// allowed divergence (integrity checks were switched off): only the chain is still guaranteed
			w.count("outcome/accepted-divergent-with-skipIntegrity", 1)
			if d := storeh.NewLedger().CheckHistory(w.st, cf.minReadable); d != "" {
				w.fail(fmt.Sprintf("chain-broken event=%s %s", ev, w.after()), d)
			}
			w.stop = true
			return
		}
		if ev.Alt != "" {
			w.fail(fmt.Sprintf("altered-accepted alter=%s tx=%d skipIntegrity=%v cfg=%s", ev.Alt, ev.Tx, ev.Skip, cf.name),
				fmt.Sprintf("altered export of %s was accepted as tx %d; the replica's Alh %x differs from the primary's; state before: %s", label{ev.Src, ev.Tx}, hdr.ID, hdr.Alh(), before))
		} else if hdr.BlTxID == 0 && hdr.BlRoot != ([sha256.Size]byte{}) {
			w.fail(fmt.Sprintf("stale-blroot-after-discard event=%s %s", ev, w.after()), fmt.Sprintf("ReplicateTx accepted the unaltered %s as tx %d, but the stored header has BlTxID=0 with a NON-ZERO BlRoot %x (left over in the pooled tx holder from a discarded transaction), so its Alh %x differs from the primary's %x",
				label{ev.Src, ev.Tx}, hdr.ID, hdr.BlRoot[:4], hdr.Alh(), cf.rec(label{ev.Src, ev.Tx}).Alh))
		} else {
			w.fail(fmt.Sprintf("replica-diverged state=%s accepted-tx-differs %s", w.realStr(), w.after()), fmt.Sprintf("ReplicateTx accepted %s as tx %d but the result is not the primary's transaction", label{ev.Src, ev.Tx}, hdr.ID))
		}
		return
	}
	if ev.Alt != "" && !ev.same {
		w.count("outcome/accepted-altered-but-result-identical", 1)
	} else {
		w.count("outcome/accepted", 1)
	}
	if l, has := cf.byAlh[hdr.Alh()]; has {
		want = l
	}
	w.tail = append(w.tail, want)
	if cf.ext {
		w.pre = append(w.pre, want)
	} else {
		w.com = append(w.com, want)
	}
}

func errKind(err error) string {
	switch {
	case errors.Is(err, store.ErrTxAlreadyCommitted):
		return "already-committed"
	case errors.Is(err, context.Canceled):
		return "waiting-for-predecessor(cancelled)"
	case errors.Is(err, store.ErrMaxActiveTransactionsLimitExceeded):
		return "beyond-window"
	case errors.Is(err, store.ErrIllegalArguments):
		return "illegal-arguments"
	case errors.Is(err, store.ErrUnexpectedError):
		return "wrong-order"
	}
	return "other"
}

func (w *sworld) restart() {
	cf := w.cf
	if err := w.st.Close(); err != nil {
		w.fail("restart-failed op=close "+w.after(), err.Error())
		w.st = nil
		return
	}
	if err := w.open(); err != nil {
		w.fail("restart-failed op=open "+w.after(), err.Error())
		return
	}
	cid, pid, alhs, err := w.alhList()
	if err != nil {
		w.fail("read-header-failed "+w.after(), err.Error())
		return
	}
	var real []label
	for i := cid; i < pid; i++ {
		l, ok := cf.byAlh[alhs[i]]
		if !ok {
			w.fail("unknown-precommit-after-restart "+w.after(), w.realStr())
			return
		}
		real = append(real, l)
	}
	for j, l := range w.pre {
		switch {
		case j >= len(real):
			cl := "precommit-lost-on-restart"
			if len(w.discarded) > 0 {
				cl = "precommit-lost-after-discard-on-restart" // same root cause as the resurrection: discarded records stay in the tx log
			}
			w.fail(fmt.Sprintf("%s want=%v got=%v %s", cl, w.pre, real, w.after()), "a clean Close/Open lost precommitted transactions the replica had reported as durable (recovery stops at the first record that does not chain, e.g. a discarded one)")
			return
		case real[j] != l && w.discarded[real[j]]:
			w.fail(fmt.Sprintf("discarded-precommit-resurrected reported=%v after-restart=%v %s", w.pre, real, w.after()),
				fmt.Sprintf("before the clean restart the replica reported precommitted (durable) %v; after Close/Open precommitted tx %d is the previously DISCARDED %s (the tx log is never rewound, recovery reloads the discarded record)", w.pre, len(w.com)+j+1, real[j]))
			return
		case real[j] != l:
			w.fail(fmt.Sprintf("precommit-changed-on-restart want=%v got=%v %s", w.pre, real, w.after()), "")
			return
		}
	}
	if len(real) > len(w.pre) {
		// documented: "Discarding may need to be redone after re-opening the store" — not demanded
		c.Add("documented/discarded-precommits-reloaded-after-restart", 1)
		w.pre = real
	}
	w.tail = append([]label{}, w.pre...)
}

func (w *sworld) discard(j int) {
	before := w.skey()
	var err error
	if pan := lib.Catch(func() { _, err = w.st.DiscardPrecommittedTxsSince(uint64(j)) }); pan != "" {
		w.wedged = true
		w.fail(fmt.Sprintf("panic event=discard(%d) cfg=%s", j, w.cf.name), pan)
		return
	}
	n := len(w.com)
	if err == nil && j > n && j <= n+len(w.pre) {
		for _, l := range w.pre[j-n-1:] {
			w.discarded[l] = true
		}
		w.pre = w.pre[:j-n-1]
		return
	}
	if after := w.skey(); after != before {
		w.fail(fmt.Sprintf("rejected-with-effect event=discard(%d) %s", j, w.after()), fmt.Sprintf("nothing to discard (err=%v) but the state changed:\n before %s\n after  %s", err, before, after))
	}
}

// allow mirrors database.AllowCommitUpto(j, Alh of the primary's tx j).
func (w *sworld) allow(j int) {
	cf := w.cf
	alh := cf.prim[0].recs[j].Alh
	before := w.skey()
	n := len(w.com)
	valid := j > n && j <= n+len(w.pre) && w.pre[j-n-1] == label{0, j}
	var err error
	cid, calh := w.st.CommittedAlh()
	if int(cid) == j {
		if calh != alh {
			err = errors.New("replica commit state diverged from primary's")
		}
	} else if hdr, e := w.st.ReadTxHeader(uint64(j), true, false); e != nil {
		err = e
	} else if hdr.Alh() != alh {
		err = errors.New("replica commit state diverged from primary's")
	} else {
		err = w.st.AllowCommitUpto(uint64(j))
	}
	if valid {
		if err != nil {
			w.fail(fmt.Sprintf("allow-failed event=allow(%d) err=%s %s", j, errClass(err), w.after()), "the replica holds the primary's tx precommitted but the allowance was refused")
			return
		}
		idx := 0
		for i, l := range w.tail {
			if l == w.pre[j-n-1] {
				idx = i + 1
			}
		}
		w.tail = append([]label{}, w.tail[idx:]...)
		w.com = append(w.com, w.pre[:j-n]...)
		w.pre = append([]label{}, w.pre[j-n:]...)
		return
	}
	if after := w.skey(); after != before {
		w.fail(fmt.Sprintf("rejected-with-effect event=allow(%d) %s", j, w.after()), fmt.Sprintf("allowance not applicable (err=%v) but the state changed:\n before %s\n after  %s", err, before, after))
	}
}

func (cf *sconfig) Run(path []int) (string, bool) {
	w := &sworld{cf: cf, dir: lib.Scratch("c07r"), discarded: map[label]bool{}, path: path}
	defer w.close()
	must(w.open())
	for w.step = 0; w.step < len(path) && !w.stop; w.step++ {
		ev := cf.events[path[w.step]]
		w.last = w.step == len(path)-1
		switch ev.Kind {
		case "deliver":
			w.deliver(ev)
		case "restart":
			w.restart()
		case "discard":
			w.discard(ev.Tx)
		case "allow":
			w.allow(ev.Tx)
		case "waitidx":
			cid, _ := w.st.CommittedAlh()
			ctx, cancel := bgCtx()
			if err := w.st.WaitForIndexingUpto(ctx, cid); err != nil {
				w.fail("indexing-stalled "+w.after(), err.Error())
			}
			cancel()
		}
		if w.stop {
			return "", true
		}
		if w.last {
			w.compare()
			if !w.stop {
				w.invariant()
			}
		}
		if w.stop {
			return "", true
		}
	}
	w.step = len(path) - 1
	return w.key(), false
}

// ---------- histories ----------

var histV1 = []txSpec{
	{Ents: []entSpec{{"a", "va1", ""}, {"b", "", ""}, {"c", "vc1", ""}}},
	{Ents: []entSpec{{"a", "", "deleted"}, {"d", "vd2", "nonindexable"}, {"b", "vb2", ""}}},
	{Ents: []entSpec{{"a", "va3", ""}}, TxMD: "extra"},
	{Ents: []entSpec{{"c", "", ""}, {"e", "ve4", ""}}, TxMD: "truncated-id"},
}

var histV0 = []txSpec{
	{Ents: []entSpec{{"a", "va1", ""}, {"b", "", ""}}},
	{Ents: []entSpec{{"a", "va2", ""}, {"c", "vc2", ""}}},
	{Ents: []entSpec{{"b", "vb3", ""}}},
}

func long(ch byte) string { return strings.Repeat(string(ch), 64) }

// values of exactly one value-log chunk (64 bytes), so that TruncateUptoTx(3) really drops the values of txs 1-2
// and every truncated tx is truncated as a whole
var histTrunc = []txSpec{
	{Ents: []entSpec{{"a", long('1'), ""}, {"b", long('2'), ""}}},
	{Ents: []entSpec{{"a", long('3'), "deleted"}}},
	{Ents: []entSpec{{"b", long('4'), ""}}, TxMD: "extra"},
	{Ents: []entSpec{{"a", "va4", ""}, {"c", "", ""}}}, // (an empty value as FIRST entry of a later tx would pin the truncation point at offset 0)
}

var forkMain = []txSpec{
	{Ents: []entSpec{{"a", "va1", ""}, {"b", "", ""}}},
	{Ents: []entSpec{{"a", "B2", ""}}},
	{Ents: []entSpec{{"b", "B3", ""}}},
}
var forkMainLarge = func() []txSpec {
	big := txSpec{}
	for i := 0; i < 60; i++ {
		big.Ents = append(big.Ents, entSpec{fmt.Sprintf("k%02d-%s", i, strings.Repeat("x", 60)), "B2", ""})
	}
	return []txSpec{forkMain[0], big, forkMain[2]}
}()

var forkOld = []txSpec{
	forkMain[0],
	{Ents: []entSpec{{"a", "A2", ""}}},
	{Ents: []entSpec{{"b", "A3", ""}}},
}

// probeMixedTruncation: what does ExportTx return for a value-truncated transaction that also holds an empty value?
// (an empty value is always "readable", the exporter then sees a partially truncated transaction)
func probeMixedTruncation() {
	specs := []txSpec{
		{Ents: []entSpec{{"a", long('1'), ""}, {"b", "", ""}}},
		{Ents: []entSpec{{"c", long('2'), ""}}},
		{Ents: []entSpec{{"d", "vd3", ""}}},
	}
	st := openPrimary(baseOpts().WithFileSize(64), specs)
	must(st.TruncateUptoTx(3))
	c.Eval("probe-truncated-mixed")
	tx := store.NewTx(st.MaxTxEntries(), st.MaxKeyLen())
	if _, err := st.ExportTx(2, false, false, tx); err != nil {
		c.Violate(lib.Violation{Sig: "export-failed shape=[truncated-value] err=" + errClass(err), Detail: "ExportTx of a wholly truncated tx failed: " + err.Error(), Replay: replay{Cfg: "probe-truncated-mixed"}})
		return
	}
	if _, err := st.ExportTx(1, false, false, tx); err != nil {
		// the store is not used any further: this error path returns holding an internal mutex (C14's subject)
		c.Violate(lib.Violation{Sig: "export-failed shape=[truncated-value,empty-value] err=" + errClass(err),
			Detail: "primary history: tx1{a=<64 bytes>, b=''}, tx2{c=<64 bytes>}, tx3{d}; TruncateUptoTx(3); ExportTx(1) returns: " + err.Error() + " — a transaction that mixes a truncated value with an empty value can never be exported, so no replica can be fed past it", Replay: replay{Cfg: "probe-truncated-mixed"}})
		return
	}
	st.Close()
}

// replay artefact: events are resolved by NAME (indices differ between tiers)
type replay struct {
	Cfg    string   `json:"cfg"`
	Events []string `json:"events"`
}

func replayOf(cf config, path []int) replay {
	r := replay{Cfg: cf.Name()}
	for _, e := range path {
		r.Events = append(r.Events, cf.EventName(e))
	}
	return r
}

// full: thorough-tier configurations (also used for replays so that every recorded event name resolves)
func full() bool { return c.Thorough() || c.ReplayPath != "" }

func main() {
	c = lib.New("C07", "model_checking", 100*time.Second, 25*time.Minute)
	debug.SetGCPercent(400)
	c.Assume("sequential world: one event at a time; the goroutine/gRPC plumbing of pkg/replication.TxReplicator is not executed, its decisions (treat 'tx already committed' as success, AllowCommitUpto from ExportTxByID's answer, discard on 'precommit state diverged') are mirrored by harness events")
	c.Assume("a delivery that would wait for a missing predecessor gets a context cancelled at its first wait; a blocking primary commit of synchronous replication is replaced by a commit whose context is cancelled at the first wait (the tx stays precommitted) plus observation of the primary's committed frontier after every event")
	c.Assume("stores are opened with Synced(false): durable == in-memory precommit at the time an API returns; crash behaviour is C03's subject, restart here is a clean Close/Open")
	// the brief asks for 4 / 6; the state spaces are small enough (most close earlier) to go deeper
	depth := 6
	if c.Thorough() {
		depth = 10
	}
	var cfgs []config
	cfgs = append(cfgs,
		newSConfig("store-v1", 1, 0, [][]txSpec{histV1}, 0, false, 8, true),
		newSConfig("store-v0", 0, 0, [][]txSpec{histV0}, 0, false, 8, true),
		newSConfig("store-truncated-primary", 1, 64, [][]txSpec{histTrunc}, 3, false, 8, true),
		newSConfig("store-window2", 1, 0, [][]txSpec{histV1}, 0, false, 2, false),
		newSConfig("store-fork-extallow", 1, 0, [][]txSpec{forkMain, forkOld}, 0, true, 8, full()),
		// the followed primary's tx 2 has a record larger than the 4 KiB read buffer, the fork's tx 2 is small
		newSConfig("store-fork-extallow-largetx", 1, 1<<16, [][]txSpec{forkMainLarge, forkOld}, 0, true, 8, false,
			func(o *store.Options) *store.Options { return o.WithMaxTxEntries(64).WithMaxKeyLen(80) }),
	)
	cfgs = append(cfgs, dbConfigs()...)
	if c.ReplayPath != "" {
		var r replay
		c.LoadReplay(&r)
		if r.Cfg == "probe-truncated-mixed" {
			probeMixedTruncation()
		}
		for _, cf := range cfgs {
			if cf.Name() == r.Cfg {
				var path []int
				for _, n := range r.Events {
					idx := -1
					for i := 0; i < cf.NEvents(); i++ {
						if cf.EventName(i) == n {
							idx = i
						}
					}
					if idx < 0 {
						fmt.Fprintln(os.Stderr, "replay: unknown event", n)
						os.Exit(2)
					}
					path = append(path, idx)
				}
				k, stop := cf.Run(path)
				fmt.Printf("replayed %s: %s -> key=%q stop=%v\n", cf.Name(), names(cf, path), k, stop)
				c.AddEvals(1)
				c.AddStates(1, 1)
			}
		}
		cleanup()
		c.Finish("replay of one recorded event path", false)
	}
	var alph []string
	for _, cf := range cfgs {
		alph = append(alph, fmt.Sprintf("%s:%d", cf.Name(), cf.NEvents()))
	}
	c.Set("configurations", alph)
	c.Set("alteration_operators", allOps)
	c.Set("depth_target", depth)
	probeMixedTruncation()
	for _, cf := range cfgs {
		if c.Expired() {
			c.CapHit("configuration " + cf.Name() + " not explored: time budget")
			continue
		}
		bfs(cf, depth)
		if s, ok := cf.(interface{ Sample() any }); ok {
			c.Sample(s.Sample())
		}
	}
	cleanup()
	c.Finish(fmt.Sprintf("breadth-first search over all event sequences up to depth %d (or until the reachable state space closed) per configuration, states deduplicated by canonical key, every state re-created by replaying its path on fresh stores; after every event: reference-model comparison of committed/precommitted ids and Alh, byte-identity of committed txs with the primary (ledger + CheckHistory), rejected => state key unchanged, accepted => the primary's tx, Get/History equal to a primary holding the same prefix, DualProofs verified against the primary's Alh, durable precommits survive a clean restart, sync replication: primary committed => enough replicas hold it precommitted; distinct = distinct (configuration, state, event) transitions", depth), !c.Expired())
}

func cleanup() {
	for _, d := range scratch {
		os.RemoveAll(d)
	}
	scratch = nil
}

func (cf *sconfig) Sample() any {
	var evs []string
	for i, e := range cf.events {
		if i < 6 || i >= len(cf.events)-4 {
			evs = append(evs, e.String())
		}
	}
	return map[string]any{"cfg": cf.name, "events(first/last)": evs, "digest_only_exports": cf.prim[0].digestOnly[1:]}
}
