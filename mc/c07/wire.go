package main

// Reference decoder of the exported-transaction wire format and the alteration operator set.
//
//	[4 hdrLen][header][ per entry: 2 kLen, key, 2 mdLen, kv-metadata, 4 vLen, value|digest ]* [2 tLen][1 truncated flag]
//	header = ID 8 | PrevAlh 32 | Ts 8 | Version 2 | (v0: NEntries 2 | v1: mdLen 2, tx-metadata, NEntries 4) | Eh 32 | BlTxID 8 | BlRoot 32
//
// The decoder is only used (a) to tell whether altered bytes still mean the same transaction ("semantically
// invisible" alteration: must then be accepted like the original) and (b) to predict whether a delivery would
// wait for a predecessor that never comes (the harness then uses a context that is cancelled at the first wait).

import (
	"bytes"
	"encoding/binary"
	"errors"
	"fmt"
)

type wEntry struct{ Key, MD, Val []byte }

type wTx struct {
	ID       uint64
	PrevAlh  [32]byte
	Ts       uint64
	Version  int
	MD       []byte
	NEntries int
	Eh       [32]byte
	BlTxID   uint64
	BlRoot   [32]byte
	Ents     []wEntry
	Trunc    bool
	HasTrail bool
	off      map[string][2]int // field -> [start,end) in the exported bytes
	bodyOff  int               // first byte after the header
}

var errWire = errors.New("undecodable")

func decodeExport(b []byte) (*wTx, error) {
	t := &wTx{off: map[string][2]int{}}
	if len(b) < 4 {
		return nil, errWire
	}
	hl := int(binary.BigEndian.Uint32(b))
	if hl < 0 || len(b) < 4+hl {
		return nil, errWire
	}
	h := b[4 : 4+hl]
	i := 0
	need := func(n int) bool { return len(h) >= i+n }
	fld := func(name string, n int) []byte {
		t.off[name] = [2]int{4 + i, 4 + i + n}
		r := h[i : i+n]
		i += n
		return r
	}
	if !need(8 + 32 + 8 + 2) {
		return nil, errWire
	}
	t.ID = binary.BigEndian.Uint64(fld("hdr-id", 8))
	copy(t.PrevAlh[:], fld("hdr-prevalh", 32))
	t.Ts = binary.BigEndian.Uint64(fld("hdr-ts", 8))
	t.Version = int(binary.BigEndian.Uint16(fld("hdr-version", 2)))
	switch t.Version {
	case 0:
		if !need(2) {
			return nil, errWire
		}
		t.NEntries = int(binary.BigEndian.Uint16(fld("hdr-nentries", 2)))
	case 1:
		if !need(2) {
			return nil, errWire
		}
		ml := int(binary.BigEndian.Uint16(fld("hdr-mdlen", 2)))
		if !need(ml + 4) {
			return nil, errWire
		}
		t.MD = append([]byte{}, fld("hdr-md", ml)...)
		t.NEntries = int(binary.BigEndian.Uint32(fld("hdr-nentries", 4)))
	default:
		return nil, errWire
	}
	if !need(32+8+32) || t.ID == 0 || t.NEntries < 1 {
		return nil, errWire
	}
	copy(t.Eh[:], fld("hdr-eh", 32))
	t.BlTxID = binary.BigEndian.Uint64(fld("hdr-bltxid", 8))
	copy(t.BlRoot[:], fld("hdr-blroot", 32))
	if t.BlTxID >= t.ID {
		return nil, errWire
	}
	p := 4 + hl
	t.bodyOff = p
	for e := 0; e < t.NEntries; e++ {
		if len(b) < p+2 {
			return nil, errWire
		}
		kl := int(binary.BigEndian.Uint16(b[p:]))
		if len(b) < p+2+kl+2 {
			return nil, errWire
		}
		ml := int(binary.BigEndian.Uint16(b[p+2+kl:]))
		if len(b) < p+2+kl+2+ml+4 {
			return nil, errWire
		}
		vl := int(binary.BigEndian.Uint32(b[p+2+kl+2+ml:]))
		vs := p + 2 + kl + 2 + ml + 4
		if vl < 0 || len(b) < vs+vl {
			return nil, errWire
		}
		sfx := fmt.Sprint(e)
		t.off["klen"+sfx] = [2]int{p, p + 2}
		t.off["key"+sfx] = [2]int{p + 2, p + 2 + kl}
		t.off["mdlen"+sfx] = [2]int{p + 2 + kl, p + 2 + kl + 2}
		t.off["kvmd"+sfx] = [2]int{p + 2 + kl + 2, p + 2 + kl + 2 + ml}
		t.off["vlen"+sfx] = [2]int{vs - 4, vs}
		t.off["value"+sfx] = [2]int{vs, vs + vl}
		t.Ents = append(t.Ents, wEntry{b[p+2 : p+2+kl], b[p+2+kl+2 : p+2+kl+2+ml], b[vs : vs+vl]})
		p = vs + vl
	}
	if p < len(b) { // trailer (absent in the legacy format)
		if len(b) < p+2 {
			return nil, errWire
		}
		tl := int(binary.BigEndian.Uint16(b[p:]))
		if tl != 1 || len(b) != p+3 || b[p+2] > 1 {
			return nil, errWire
		}
		t.HasTrail = true
		t.Trunc = b[p+2] == 1
		t.off["trunc-flag"] = [2]int{p + 2, p + 3}
	}
	return t, nil
}

// same: both decode to the same transaction (the legacy form without trailer equals "not truncated").
func (a *wTx) same(b *wTx) bool {
	if a.ID != b.ID || a.PrevAlh != b.PrevAlh || a.Ts != b.Ts || a.Version != b.Version || !bytes.Equal(a.MD, b.MD) ||
		a.NEntries != b.NEntries || a.Eh != b.Eh || a.BlTxID != b.BlTxID || a.BlRoot != b.BlRoot || a.Trunc != b.Trunc || len(a.Ents) != len(b.Ents) {
		return false
	}
	for i := range a.Ents {
		if !bytes.Equal(a.Ents[i].Key, b.Ents[i].Key) || !bytes.Equal(a.Ents[i].MD, b.Ents[i].MD) || !bytes.Equal(a.Ents[i].Val, b.Ents[i].Val) {
			return false
		}
	}
	return true
}

// ---------- alteration operators ----------

// field flips: XOR 0x01 on the last byte of the field (of the first entry that has a non-empty such field)
var flipOps = []string{"hdr-id", "hdr-prevalh", "hdr-ts", "hdr-version", "hdr-mdlen", "hdr-md", "hdr-nentries", "hdr-eh", "hdr-bltxid", "hdr-blroot",
	"klen", "key", "mdlen", "kvmd", "vlen", "value", "trunc-flag"}

// structural operators
var structOps = []string{"trunc-len0", "drop-last-byte", "drop-trailer", "append-byte", "splice-next-body", "splice-next-hdr"}

var allOps = append(append([]string{}, flipOps...), structOps...)

// alter applies operator op to the exported bytes of a tx; next = exported bytes of the following tx of the same
// primary (nil if none). ok=false: the operator is not applicable to this transaction.
func alter(op string, orig, next []byte) (out []byte, ok bool) {
	d, err := decodeExport(orig)
	if err != nil {
		panic("harness: original export does not decode: " + err.Error())
	}
	flip := func(r [2]int) ([]byte, bool) {
		if r[1] <= r[0] {
			return nil, false
		}
		o := append([]byte{}, orig...)
		o[r[1]-1] ^= 0x01
		return o, true
	}
	switch op {
	case "klen", "key", "mdlen", "kvmd", "vlen", "value":
		for e := range d.Ents {
			if r := d.off[op+fmt.Sprint(e)]; r[1] > r[0] {
				return flip(r)
			}
		}
		return nil, false
	case "trunc-len0": // [.. 00 01 f] -> [.. 00 00]
		if !d.HasTrail {
			return nil, false
		}
		o := append([]byte{}, orig[:len(orig)-3]...)
		return append(o, 0, 0), true
	case "drop-last-byte":
		return append([]byte{}, orig[:len(orig)-1]...), true
	case "drop-trailer":
		if !d.HasTrail {
			return nil, false
		}
		return append([]byte{}, orig[:len(orig)-3]...), true
	case "append-byte":
		return append(append([]byte{}, orig...), 0), true
	case "splice-next-body", "splice-next-hdr":
		if next == nil {
			return nil, false
		}
		n, err := decodeExport(next)
		if err != nil {
			panic("harness: original export does not decode")
		}
		if op == "splice-next-body" { // header of tx i on the body of tx i+1
			return append(append([]byte{}, orig[:d.bodyOff]...), next[n.bodyOff:]...), true
		}
		return append(append([]byte{}, next[:n.bodyOff]...), orig[d.bodyOff:]...), true
	default:
		r, has := d.off[op]
		if !has {
			return nil, false
		}
		return flip(r)
	}
}
