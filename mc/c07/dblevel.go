package main

// pkg/database level: database.DB as primary and as replica.
//
//	db-async: a primary DB with a fixed history (Set with an empty value, Set with tx metadata, Delete, SetReference)
//	  prepared once; events deliver(i) / deliver(alter(i)) through ExportTxByID bytes -> replica.ReplicateTx, replica
//	  restart (Close + OpenDB), wait-for-indexing; oracle as at store level, through the DB API (CurrentState,
//	  ExportTxByID on the replica == the primary's bytes, Get / History, VerifiableTxByID dual proofs verified
//	  against the primary's Alh).
//	db-sync: primary with syncReplication + syncAcks, replicas with syncReplication (external commit allowance).
//	  Everything is re-created per path. Events: pcommit (primary Set of the next tx of a fixed list with a context that is cancelled at
//	  the first wait: the tx is precommitted, the call reports cancellation instead of blocking), deliver(r,i) (export with AllowPreCommitted, ReplicateTx on replica r), fetch(r,i)
//	  (the replicator's fetchNextTx mirrored: ExportTxByID with the replica's CurrentState as ReplicaState, then
//	  AllowCommitUpto(mayCommitUpTo) or, on "precommit state diverged", DiscardPrecommittedTxsSince(committed+1)),
//	  replica restart, primary restart (thorough), allow-bad(r,j) (AllowCommitUpto with a foreign Alh). Oracle: primary committed id j > 0 => at least syncAcks replicas
//	  hold tx j durably precommitted with the primary's Alh; replica committed <= primary committed and identical;
//	  with one replica a fetch makes the progress the protocol promises.

import (
	"bytes"
	"context"
	"crypto/sha256"
	"encoding/binary"
	"errors"
	"fmt"
	"os"
	"strings"
	"time"

	"github.com/codenotary/immudb/embedded/logger"
	"github.com/codenotary/immudb/embedded/store"
	"github.com/codenotary/immudb/pkg/api/schema"
	"github.com/codenotary/immudb/pkg/database"
	"verif/mc/lib"
)

var quietLog = logger.NewMemoryLoggerWithLevel(logger.LogError)

func dbStoreOpts() *store.Options {
	// SyncFrequency*4 is the time ExportTxByID(ReplicaState != nil) waits for a tx that does not exist yet: the
	// harness never requests such a tx, the value only has to be far away from any scheduling hiccup
	return baseOpts().WithMultiIndexing(true).WithMaxKeyLen(64).WithMaxTxEntries(8).WithSyncFrequency(5 * time.Second).WithTimeFunc(fixedTime)
}

func dbOpts(dir string, replica, syncRepl bool, acks int) *database.Options {
	return database.DefaultOptions().WithDBRootPath(dir).WithStoreOptions(dbStoreOpts()).WithReadTxPoolSize(4).
		AsReplica(replica).WithSyncReplication(syncRepl).WithSyncAcks(acks)
}

type dstate struct {
	c, p       uint64
	calh, palh [sha256.Size]byte
}

func stateOf(d database.DB) dstate {
	s, err := d.CurrentState()
	must(err)
	return dstate{s.TxId, s.PrecommittedTxId, schema.DigestFromProto(s.TxHash), schema.DigestFromProto(s.PrecommittedTxHash)}
}

func (s dstate) String() string {
	return fmt.Sprintf("c=%d/%x,p=%d/%x", s.c, s.calh[:3], s.p, s.palh[:3])
}

func exportOf(d database.DB, id uint64) ([]byte, error) {
	ctx, cancel := bgCtx()
	defer cancel()
	bs, _, _, err := d.ExportTxByID(ctx, &schema.ExportTxRequest{Tx: id, AllowPreCommitted: true})
	return append([]byte{}, bs...), err
}

func entryStr(e *schema.Entry, err error) string {
	if err != nil {
		return "err:" + errClass(err)
	}
	s := fmt.Sprintf("tx=%d rev=%d key=%q val=%q", e.Tx, e.Revision, e.Key, e.Value)
	if e.Metadata != nil {
		s += fmt.Sprintf(" md=%v", e.Metadata)
	}
	if e.ReferencedBy != nil {
		s += fmt.Sprintf(" ref=%q@%d", e.ReferencedBy.Key, e.ReferencedBy.Tx)
	}
	return s
}

func dbGet(d database.DB, k string) string {
	return entryStr(d.Get(context.Background(), &schema.KeyRequest{Key: []byte(k)}))
}

func dbHist(d database.DB, k string) string {
	es, err := d.History(context.Background(), &schema.HistoryRequest{Key: []byte(k)})
	if err != nil {
		return "err:" + errClass(err)
	}
	var s []string
	for _, e := range es.Entries {
		s = append(s, entryStr(e, nil))
	}
	return strings.Join(s, " | ")
}

// ---------- db-async ----------

type dconfig struct {
	name    string
	k       int
	exp     [][]byte
	dec     []*wTx
	alh     [][sha256.Size]byte
	events  []event
	keys    []string
	expGet  map[string]string
	expHist map[string]string
}

func (cf *dconfig) Name() string           { return cf.name }
func (cf *dconfig) NEvents() int           { return len(cf.events) }
func (cf *dconfig) EventName(i int) string { return cf.events[i].String() }

var dbAlts = map[string]bool{"hdr-id": true, "hdr-md": true, "hdr-ts": true, "hdr-prevalh": true, "hdr-eh": true, "hdr-blroot": true, "key": true, "value": true,
	"trunc-len0": true, "drop-last-byte": true, "drop-trailer": true, "splice-next-body": true}

func newDConfig() *dconfig {
	cf := &dconfig{name: "db-async", keys: []string{"a", "b", "r", "zz"}, expGet: map[string]string{}, expHist: map[string]string{}}
	dir := lib.Scratch("c07dp")
	scratch = append(scratch, dir)
	p, err := database.NewDB("prim", nil, dbOpts(dir, false, false, 0), quietLog)
	must(err)
	ctx := context.Background()
	_, err = p.Set(ctx, &schema.SetRequest{KVs: []*schema.KeyValue{{Key: []byte("a"), Value: []byte("va1")}, {Key: []byte("b"), Value: []byte{}}}})
	must(err)
	_, err = p.Set(schema.ContextWithMetadata(ctx, schema.Metadata{"usr": "verif"}), &schema.SetRequest{KVs: []*schema.KeyValue{{Key: []byte("a"), Value: []byte("va2")}}})
	must(err)
	_, err = p.Delete(ctx, &schema.DeleteKeysRequest{Keys: [][]byte{[]byte("b")}})
	must(err)
	_, err = p.SetReference(ctx, &schema.ReferenceRequest{Key: []byte("r"), ReferencedKey: []byte("a")})
	must(err)
	st := stateOf(p)
	cf.k = int(st.c)
	cf.exp, cf.dec, cf.alh = make([][]byte, cf.k+1), make([]*wTx, cf.k+1), make([][sha256.Size]byte, cf.k+1)
	prim := &primary{name: "P", k: cf.k, exp: cf.exp, dec: cf.dec}
	for i := 1; i <= cf.k; i++ {
		cf.exp[i], err = exportOf(p, uint64(i))
		must(err)
		cf.dec[i], err = decodeExport(cf.exp[i])
		must(err)
		tx, err := p.TxByID(ctx, &schema.TxRequest{Tx: uint64(i)})
		must(err)
		cf.alh[i] = schema.TxHeaderFromProto(tx.Header).Alh()
	}
	wctx, cancel := bgCtx()
	must(p.WaitForIndexingUpto(wctx, st.c))
	cancel()
	for _, k := range cf.keys {
		cf.expGet[k], cf.expHist[k] = dbGet(p, k), dbHist(p, k)
	}
	must(p.Close())
	for _, e := range deliveries([]*primary{prim}, true) {
		if e.Alt == "" || dbAlts[e.Alt] {
			cf.events = append(cf.events, e)
		}
	}
	cf.events = append(cf.events, event{Kind: "restart"}, event{Kind: "waitidx"}, event{Kind: "discard", Tx: 1}, event{Kind: "discard", Tx: 2})
	return cf
}

func (cf *dconfig) Sample() any {
	return map[string]any{"cfg": cf.name, "primary_history": "Set{a,b=''}; Set{a}+txmetadata; Delete{b}; SetReference{r->a}", "Get(r) on the primary": cf.expGet["r"]}
}

type dworld struct {
	cf   *dconfig
	dir  string
	db   database.DB
	n    int // model: number of replicated transactions
	path []int
	step int
	stop bool
}

func (w *dworld) count(k string, n int64) {
	if w.step == len(w.path)-1 {
		c.Add(k, n)
	}
}

func (w *dworld) after() string {
	return "cfg=" + w.cf.name + " after=<" + names(w.cf, w.path[:w.step+1]) + ">"
}

func (w *dworld) fail(sig, detail string) {
	c.Violate(lib.Violation{Sig: sig, Detail: fmt.Sprintf("%s\nconfiguration %s, event path: %s", detail, w.cf.name, names(w.cf, w.path[:w.step+1])),
		Replay: replayOf(w.cf, w.path[:w.step+1])})
	w.stop = true
}

func (w *dworld) key() string {
	st := stateOf(w.db)
	ctx, cancel := bgCtx()
	err := w.db.WaitForIndexingUpto(ctx, st.c)
	cancel()
	s := st.String()
	if err != nil {
		s += " idx-wait:" + errClass(err)
	}
	for _, k := range w.cf.keys {
		e, err := w.db.Get(context.Background(), &schema.KeyRequest{Key: []byte(k)})
		if err != nil {
			s += " " + k + ":-"
		} else {
			s += fmt.Sprintf(" %s:%d@%d", k, e.Tx, e.Revision)
		}
	}
	return s
}

func (w *dworld) invariant() {
	cf := w.cf
	st := stateOf(w.db)
	if int(st.c) != w.n || st.p != st.c || (w.n > 0 && st.calh != cf.alh[w.n]) {
		w.fail(fmt.Sprintf("replica-diverged state=%s want=c=%d %s", st, w.n, w.after()), "CurrentState of the replica differs from the reference model")
		return
	}
	for i := 1; i <= w.n; i++ {
		bs, err := exportOf(w.db, uint64(i))
		if err != nil || !bytes.Equal(bs, cf.exp[i]) {
			w.fail(fmt.Sprintf("replica-diverged state=%s tx=%d export-differs %s", st, i, w.after()), fmt.Sprintf("ExportTxByID(%d) on the replica (err=%v) is not byte-identical to the primary's", i, err))
			return
		}
	}
	if w.n > 0 {
		for i := 1; i <= w.n; i++ {
			vtx, err := w.db.VerifiableTxByID(context.Background(), &schema.VerifiableTxRequest{Tx: uint64(w.n), ProveSinceTx: uint64(i)})
			if err != nil || !store.VerifyDualProof(schema.DualProofFromProto(vtx.DualProof), uint64(i), uint64(w.n), cf.alh[i], cf.alh[w.n]) {
				w.fail(fmt.Sprintf("proof-mismatch dualproof(%d,%d) %s", i, w.n, w.after()), fmt.Sprintf("VerifiableTxByID(tx=%d, since=%d) of the replica does not verify against the primary's Alh (err=%v)", w.n, i, err))
				return
			}
			c.Add("dual_proofs_verified", 1)
		}
	}
	if w.n == cf.k {
		ctx, cancel := bgCtx()
		err := w.db.WaitForIndexingUpto(ctx, st.c)
		cancel()
		if err != nil {
			w.fail("indexing-stalled "+w.after(), err.Error())
			return
		}
		for _, k := range cf.keys {
			if g := dbGet(w.db, k); g != cf.expGet[k] {
				w.fail(fmt.Sprintf("query-mismatch api=get key=%s %s", k, w.after()), fmt.Sprintf("replica: %s\nprimary: %s", g, cf.expGet[k]))
				return
			}
			if h := dbHist(w.db, k); h != cf.expHist[k] {
				w.fail(fmt.Sprintf("query-mismatch api=history key=%s %s", k, w.after()), fmt.Sprintf("replica: %s\nprimary: %s", h, cf.expHist[k]))
				return
			}
		}
		c.Add("full_replica_query_comparisons", 1)
	}
}

func (w *dworld) deliver(ev event, last bool) {
	cf := w.cf
	st := stateOf(w.db)
	before := ""
	if last {
		before = w.key()
	}
	var ctx context.Context = &cowCtx{Context: context.Background()}
	cancel := func() {}
	if !wouldWait(ev.data, st.p) {
		ctx, cancel = bgCtx()
	}
	var hdr *schema.TxHeader
	var err error
	pan := lib.Catch(func() { hdr, err = w.db.ReplicateTx(ctx, ev.data, ev.Skip, false) })
	cancel()
	if pan != "" {
		w.fail(fmt.Sprintf("panic event=%s cfg=%s", ev, cf.name), "database.ReplicateTx panicked: "+pan)
		return
	}
	if errors.Is(err, context.DeadlineExceeded) {
		w.fail(fmt.Sprintf("blocked event=%s %s", ev, w.after()), "ReplicateTx did not return")
		return
	}
	extends := ev.dec != nil && ev.dec.ID == st.p+1 && ev.dec.PrevAlh == st.palh
	if err != nil {
		w.count("outcome/rejected:"+errKind(err), 1)
		if !last {
			return
		}
		if after := w.key(); after != before {
			w.fail(fmt.Sprintf("rejected-with-effect event=%s err=%s %s", ev, errClass(err), w.after()), fmt.Sprintf("before %s\nafter  %s", before, after))
		} else if ev.same && extends {
			w.fail(fmt.Sprintf("in-order-rejected event=%s err=%s %s", ev, errClass(err), w.after()), "the bytes are exactly the next transaction of the primary")
		}
		return
	}
	if hdr == nil || hdr.Id <= st.p {
		if last && w.key() != before {
			w.fail(fmt.Sprintf("duplicate-changed-state event=%s %s", ev, w.after()), "")
		}
		return
	}
	ok := int(st.p)+1 <= cf.k && hdr.Id == st.p+1 && schema.TxHeaderFromProto(hdr).Alh() == cf.alh[st.p+1]
	if !ok {
		if ev.Skip && ev.Alt != "" {
			w.count("outcome/accepted-divergent-with-skipIntegrity", 1)
			w.stop = true
			return
		}
		if ev.Alt != "" {
			w.fail(fmt.Sprintf("altered-accepted alter=%s tx=%d skipIntegrity=%v cfg=%s", ev.Alt, ev.Tx, ev.Skip, cf.name), fmt.Sprintf("altered export of tx %d accepted as tx %d with an Alh different from the primary's; state before: %s", ev.Tx, hdr.Id, st))
		} else {
			w.fail(fmt.Sprintf("replica-diverged state=%s accepted-tx-differs %s", stateOf(w.db), w.after()), "")
		}
		return
	}
	w.count("outcome/accepted", 1)
	w.n++
}

func (cf *dconfig) Run(path []int) (string, bool) {
	w := &dworld{cf: cf, dir: lib.Scratch("c07d"), path: path}
	defer os.RemoveAll(w.dir)
	var err error
	w.db, err = database.NewDB("rep", nil, dbOpts(w.dir, true, false, 0), quietLog)
	must(err)
	defer func() {
		if w.db != nil {
			w.db.Close()
		}
	}()
	for w.step = 0; w.step < len(path) && !w.stop; w.step++ {
		ev := cf.events[path[w.step]]
		last := w.step == len(path)-1
		switch ev.Kind {
		case "deliver":
			w.deliver(ev, last)
		case "restart":
			if err := w.db.Close(); err != nil {
				w.db = nil
				w.fail("restart-failed op=close "+w.after(), err.Error())
				break
			}
			if w.db, err = database.OpenDB("rep", nil, dbOpts(w.dir, true, false, 0), quietLog); err != nil {
				w.db = nil
				w.fail("restart-failed op=open "+w.after(), err.Error())
			}
		case "discard":
			// an asynchronous replica has nothing precommitted: must be refused or do nothing
			before := w.key()
			err := w.db.DiscardPrecommittedTxsSince(uint64(ev.Tx))
			if after := w.key(); after != before {
				w.fail(fmt.Sprintf("rejected-with-effect event=%s %s", ev, w.after()), fmt.Sprintf("err=%v\nbefore %s\nafter  %s", err, before, after))
			}
		case "waitidx":
			ctx, cancel := bgCtx()
			if err := w.db.WaitForIndexingUpto(ctx, stateOf(w.db).c); err != nil {
				w.fail("indexing-stalled "+w.after(), err.Error())
			}
			cancel()
		}
		if !w.stop && last {
			w.invariant()
		}
		if w.stop {
			return "", true
		}
	}
	w.step = len(path) - 1
	return w.key(), false
}

// ---------- db-sync ----------

type sevent struct {
	Kind string // pcommit | deliver | fetch | restart | prestart
	R    int
	Tx   int
}

func (e sevent) String() string {
	switch e.Kind {
	case "pcommit", "prestart":
		return e.Kind
	case "restart":
		return fmt.Sprintf("restart(r%d)", e.R)
	}
	return fmt.Sprintf("%s(r%d,%d)", e.Kind, e.R, e.Tx)
}

type syconfig struct {
	name   string
	acks   int
	nrep   int
	k      int
	events []sevent
}

func (cf *syconfig) Name() string           { return cf.name }
func (cf *syconfig) NEvents() int           { return len(cf.events) }
func (cf *syconfig) EventName(i int) string { return cf.events[i].String() }
func (cf *syconfig) Sample() any {
	var evs []string
	for _, e := range cf.events {
		evs = append(evs, e.String())
	}
	return map[string]any{"cfg": cf.name, "events": evs}
}

func newSyConfig(name string, acks, nrep, k int, prestart bool) *syconfig {
	cf := &syconfig{name: name, acks: acks, nrep: nrep, k: k}
	cf.events = append(cf.events, sevent{Kind: "pcommit"})
	for r := 0; r < nrep; r++ {
		for i := 1; i <= k; i++ {
			cf.events = append(cf.events, sevent{"deliver", r, i}, sevent{"fetch", r, i}, sevent{"allow-bad", r, i})
		}
		cf.events = append(cf.events, sevent{Kind: "restart", R: r})
	}
	if prestart {
		cf.events = append(cf.events, sevent{Kind: "prestart"})
	}
	return cf
}

type syworld struct {
	cf       *syconfig
	pdir     string
	prim     database.DB
	rdir     []string
	rep      []database.DB
	reported []uint64 // mirror of the primary's hidden replicaStates (part of the state key)
	path     []int
	step     int
	stop     bool
}

func (w *syworld) after() string {
	return "cfg=" + w.cf.name + " after=<" + names(w.cf, w.path[:w.step+1]) + ">"
}

func (w *syworld) fail(sig, detail string) {
	c.Violate(lib.Violation{Sig: sig, Detail: fmt.Sprintf("%s\nconfiguration %s (syncAcks=%d, %d replica(s)), event path: %s\nstate: %s", detail, w.cf.name, w.cf.acks, w.cf.nrep, names(w.cf, w.path[:w.step+1]), w.key()),
		Replay: replayOf(w.cf, w.path[:w.step+1])})
	w.stop = true
}

func (w *syworld) key() string {
	ps := stateOf(w.prim)
	s := "prim{" + ps.String() + "}"
	for r, d := range w.rep {
		rep := w.reported[r]
		if rep <= ps.c {
			rep = 0
		}
		s += fmt.Sprintf(" r%d{%s reported=%d}", r, stateOf(d), rep)
	}
	return s
}

// hdrAlh: Alh of tx id (committed or precommitted) of a DB, recomputed from the exported header.
func hdrAlh(d database.DB, id uint64) ([sha256.Size]byte, error) {
	bs, err := exportOf(d, id)
	if err != nil {
		return [sha256.Size]byte{}, err
	}
	if _, err := decodeExport(bs); err != nil {
		return [sha256.Size]byte{}, err
	}
	h := &store.TxHeader{}
	if err := h.ReadFrom(bs[4 : 4+binary.BigEndian.Uint32(bs)]); err != nil {
		return [sha256.Size]byte{}, err
	}
	return h.Alh(), nil
}

func (w *syworld) invariant() {
	ps := stateOf(w.prim)
	holders := 0
	var desc []string
	for r, d := range w.rep {
		rs := stateOf(d)
		desc = append(desc, fmt.Sprintf("r%d{%s}", r, rs))
		if rs.c > ps.c {
			w.fail(fmt.Sprintf("replica-ahead-of-primary replica=r%d committed=%d primary-committed=%d %s", r, rs.c, ps.c, w.after()), "a replica committed a transaction the primary has not committed")
			return
		}
		for i := uint64(1); i <= rs.c; i++ {
			a, e1 := exportOf(d, i)
			b, e2 := exportOf(w.prim, i)
			if e1 != nil || e2 != nil || !bytes.Equal(a, b) {
				w.fail(fmt.Sprintf("replica-diverged state=r%d{%s} tx=%d export-differs %s", r, rs, i, w.after()), fmt.Sprint(e1, e2))
				return
			}
		}
		if ps.c > 0 && rs.p >= ps.c {
			a, e1 := hdrAlh(d, ps.c)
			if e1 == nil && a == ps.calh {
				holders++
			}
		}
	}
	if ps.c > 0 && holders < w.cf.acks {
		w.fail(fmt.Sprintf("sync-commit-without-acks primary-committed=%d holders=%d acks=%d replicas=%s %s", ps.c, holders, w.cf.acks, strings.Join(desc, ","), w.after()),
			"the primary's committed frontier is beyond what the required number of replicas durably hold (precommitted, same Alh)")
	}
}

func (w *syworld) open(dir, name string, replica bool, fresh bool) (database.DB, error) {
	o := dbOpts(dir, replica, true, w.cf.acks)
	if replica {
		o = dbOpts(dir, true, true, 0)
	}
	if fresh {
		return database.NewDB(name, nil, o, quietLog)
	}
	return database.OpenDB(name, nil, o, quietLog)
}

func (w *syworld) close() {
	if w.prim != nil {
		w.prim.Close()
	}
	os.RemoveAll(w.pdir)
	for r, d := range w.rep {
		if d != nil {
			d.Close()
		}
		os.RemoveAll(w.rdir[r])
	}
}

func syncKV(i int) []*schema.KeyValue {
	return []*schema.KeyValue{{Key: []byte("a"), Value: []byte(fmt.Sprintf("v%d", i))}, {Key: []byte(fmt.Sprintf("k%d", i)), Value: []byte{}}}
}

func (cf *syconfig) Run(path []int) (string, bool) {
	w := &syworld{cf: cf, pdir: lib.Scratch("c07sp"), path: path, reported: make([]uint64, cf.nrep)}
	defer w.close()
	var err error
	w.prim, err = w.open(w.pdir, "prim", false, true)
	must(err)
	for r := 0; r < cf.nrep; r++ {
		w.rdir = append(w.rdir, lib.Scratch("c07sr"))
		d, err := w.open(w.rdir[r], "rep", true, true)
		must(err)
		w.rep = append(w.rep, d)
	}
	for w.step = 0; w.step < len(path) && !w.stop; w.step++ {
		ev := cf.events[path[w.step]]
		last := w.step == len(path)-1
		ps := stateOf(w.prim)
		switch ev.Kind {
		case "pcommit":
			if int(ps.p) >= cf.k {
				return "", true // history exhausted: event not enabled
			}
			// a commit on a sync-replication primary blocks until enough replicas acknowledged: the caller's context is
			// cancelled at the first wait (a client that gave up); the transaction stays precommitted
			_, err := w.prim.Set(&cowCtx{Context: context.Background()}, &schema.SetRequest{KVs: syncKV(int(ps.p) + 1)})
			if ns := stateOf(w.prim); !errors.Is(err, context.Canceled) || ns.p != ps.p+1 || ns.c != ps.c {
				w.fail(fmt.Sprintf("primary-commit-not-held-back err=%v state=%s %s", err, ns, w.after()), "Set on a synchronous-replication primary without acknowledgements must precommit and wait (err=context canceled expected from the harness context)")
			}
		case "deliver":
			if uint64(ev.Tx) > ps.p {
				return "", true // the primary does not have this tx yet
			}
			rs := stateOf(w.rep[ev.R])
			bs, err := exportOf(w.prim, uint64(ev.Tx))
			if err != nil {
				w.fail(fmt.Sprintf("export-failed tx=%d err=%s %s", ev.Tx, errClass(err), w.after()), err.Error())
				break
			}
			before := ""
			if last {
				before = w.key()
			}
			var ctx context.Context = &cowCtx{Context: context.Background()}
			cancel := func() {}
			if uint64(ev.Tx) <= rs.p+1 {
				ctx, cancel = bgCtx()
			}
			var hdr *schema.TxHeader
			pan := lib.Catch(func() { hdr, err = w.rep[ev.R].ReplicateTx(ctx, bs, false, false) })
			cancel()
			if pan != "" {
				w.fail(fmt.Sprintf("panic event=%s cfg=%s", ev, cf.name), pan)
				break
			}
			ns := stateOf(w.rep[ev.R])
			switch {
			case err != nil && last && w.key() != before:
				w.fail(fmt.Sprintf("rejected-with-effect event=%s err=%s %s", ev, errClass(err), w.after()), "before "+before)
			case err != nil && uint64(ev.Tx) == rs.p+1:
				w.fail(fmt.Sprintf("in-order-rejected event=%s err=%s %s", ev, errClass(err), w.after()), "the next transaction of the primary was refused")
			case err == nil && (hdr == nil || hdr.Id != uint64(ev.Tx) || ns.p != rs.p+1 || ns.c != rs.c):
				w.fail(fmt.Sprintf("replica-diverged state=r%d{%s} want=c=%d,p=%d %s", ev.R, ns, rs.c, rs.p+1, w.after()), "a delivery to a replica with external commit allowance must precommit exactly that tx and commit nothing")
			}
		case "fetch":
			if uint64(ev.Tx) > ps.p {
				return "", true
			}
			rs := stateOf(w.rep[ev.R])
			before := ""
			if last {
				before = w.key()
			}
			ctx, cancel := bgCtx()
			_, mayID, mayAlh, err := w.prim.ExportTxByID(ctx, &schema.ExportTxRequest{Tx: uint64(ev.Tx), AllowPreCommitted: true,
				ReplicaState: &schema.ReplicaState{UUID: fmt.Sprintf("replica-%d", ev.R), CommittedTxID: rs.c, CommittedAlh: rs.calh[:], PrecommittedTxID: rs.p, PrecommittedAlh: rs.palh[:]}})
			cancel()
			switch {
			case err != nil && strings.Contains(err.Error(), "replica precommit state diverged from primary"):
				c.Add("sync/fetch-answered-precommit-diverged", 1)
				if e := w.rep[ev.R].DiscardPrecommittedTxsSince(rs.c + 1); e != nil {
					w.fail(fmt.Sprintf("discard-failed err=%s %s", errClass(e), w.after()), e.Error())
				}
			case err != nil:
				// without forks every state the replica reports is a prefix of the primary's: must be accepted
				w.fail(fmt.Sprintf("fetch-refused event=%s err=%s %s", ev, errClass(err), w.after()), fmt.Sprintf("ExportTxByID with ReplicaState{%s}: %v", rs, err))
			default:
				if rs.p > ps.c {
					w.reported[ev.R] = rs.p
				}
				if mayID > rs.c {
					if e := w.rep[ev.R].AllowCommitUpto(mayID, mayAlh); e != nil {
						w.fail(fmt.Sprintf("allow-failed event=%s mayCommitUpTo=%d err=%s %s", ev, mayID, errClass(e), w.after()), e.Error())
						break
					}
				}
				if cf.nrep == 1 && cf.acks == 1 && last {
					// progress promised by the protocol with a single replica: the primary may commit what the replica holds,
					// the replica may commit what the primary had committed when it answered
					wantP, wantR := max(ps.c, min(rs.p, ps.p)), max(rs.c, min(rs.p, ps.c))
					if np, nr := stateOf(w.prim), stateOf(w.rep[0]); np.c != wantP || nr.c != wantR {
						w.fail(fmt.Sprintf("sync-no-progress event=%s primary-committed=%d want=%d replica-committed=%d want=%d %s", ev, np.c, wantP, nr.c, wantR, w.after()), "before: "+before)
					}
				}
			}
		case "allow-bad":
			// an allowance carrying an Alh that is not the replica's tx: must be refused without effect
			before := w.key()
			err := w.rep[ev.R].AllowCommitUpto(uint64(ev.Tx), sha256.Sum256([]byte("not the primary's Alh")))
			if after := w.key(); err == nil && uint64(ev.Tx) <= stateOf(w.rep[ev.R]).p || after != before {
				w.fail(fmt.Sprintf("bad-allowance-accepted event=%s err=%v %s", ev, err, w.after()), fmt.Sprintf("before %s\nafter  %s", before, after))
			}
		case "restart":
			rs := stateOf(w.rep[ev.R])
			err := w.rep[ev.R].Close()
			w.rep[ev.R] = nil
			if err == nil {
				w.rep[ev.R], err = w.open(w.rdir[ev.R], "rep", true, false)
			}
			if err != nil {
				w.rep[ev.R] = nil
				c.Violate(lib.Violation{Sig: "restart-failed replica " + w.after(), Detail: err.Error(), Replay: replayOf(cf, path[:w.step+1])})
				return "", true
			}
			if ns := stateOf(w.rep[ev.R]); ns != rs {
				w.fail(fmt.Sprintf("restart-changed-state before=%s after=%s %s", rs, ns, w.after()), "a clean Close/OpenDB of the replica changed its committed / durable-precommitted state")
			}
		case "prestart":
			err := w.prim.Close()
			w.prim = nil
			if err == nil {
				w.prim, err = w.open(w.pdir, "prim", false, false)
			}
			if err != nil {
				w.prim = nil
				c.Violate(lib.Violation{Sig: "restart-failed primary " + w.after(), Detail: err.Error(), Replay: replayOf(cf, path[:w.step+1])})
				return "", true
			}
			for r := range w.reported {
				w.reported[r] = 0
			}
			if ns := stateOf(w.prim); ns != ps {
				w.fail(fmt.Sprintf("restart-changed-state primary before=%s after=%s %s", ps, ns, w.after()), "")
			}
		}
		if !w.stop && last {
			w.invariant()
		}
		if w.stop {
			return "", true
		}
	}
	w.step = len(path) - 1
	return w.key(), false
}

func dbConfigs() []config {
	k := 2
	if full() {
		k = 3
	}
	return []config{newDConfig(),
		newSyConfig("db-sync-acks1-1replica", 1, 1, k, full()),
		newSyConfig("db-sync-acks1-2replicas", 1, 2, 2, false),
		newSyConfig("db-sync-acks2-2replicas", 2, 2, 2, full())}
}
