// C11 — SQL query results do not depend on the physical plan.
//
// Bounded exhaustive DML histories x exhaustive query grammar on the REAL embedded/sql engine; the oracle is
// purely differential (no hand-written expected rows).
//
// Space
//   - Twin tables receiving IDENTICAL DML: t_pk (primary key only), t_ix (indexes (a), (b), (a,b), UNIQUE(c),
//     (f), (ts) created BEFORE the data), t_late (the same indexes, (c) not unique, created AFTER the data).
//     Columns: id INTEGER pk, a INTEGER, b VARCHAR[3], c INTEGER (distinct per id, NULL only for id 2),
//     f FLOAT (0.0, -0.0, 1.5), ts TIMESTAMP, ok BOOLEAN (never indexed); all but id nullable, 3-value domains.
//   - Histories: ALL sequences over the 12-statement alphabet `ops` (insert, upsert of an existing id, ON
//     CONFLICT DO NOTHING, update of indexed / non-indexed columns by pk and by indexed predicate, delete by pk
//     and by indexed predicate, a two-statement transaction) up to depth 3 (thorough 4), shallower depths first.
//     Every history runs statement by statement (autocommit) on each twin; the twins must agree on
//     error/success and on their content after every statement (dml-diff). A history all of whose statements
//     changed the store is "canonical"; a non-canonical history reaches the physical state of the canonical
//     history obtained by deleting its failed / no-op statements (enumerated on its own), so the query grammar
//     is explored once per canonical history (= distinct physical state).
//   - For a canonical history the last statement runs inside an explicit transaction and the query catalogue
//     (buildQueries: WHERE atoms over every column and operator, NOT, AND/OR pairs, COUNT(*), ORDER BY one/two
//     columns asc/desc, LIMIT/OFFSET under a total order, DISTINCT, GROUP BY + aggregates, HAVING, inner / left
//     / lateral / cross joins of twins, IN / EXISTS / scalar subqueries, UNION, BEFORE/UNTIL/SINCE/AFTER TX
//     periods, HISTORY OF) runs in five phases: inside the open tx, after COMMIT, after creating the late
//     indexes, after close + reopen, reopened with a 2-row sort buffer and DISTINCT spill threshold; on every
//     twin, with the default plan and with USE INDEX ON every index that shares a column with the query.
//     Histories of the deepest level get the core catalogue only (scans, WHERE atoms, COUNT, ORDER BY, GROUP BY
//     / aggregates, periods, HISTORY OF; no AND/OR pairs, LIMIT, DISTINCT, joins, subqueries, small buffers).
//
// Oracles: (1) every variant of a query group returns the same multiset of rows as the reference (t_pk,
// default plan, same phase) — the same LIST when the ORDER BY is total — error vs success included;
// (2) the reference result is the same in every phase; (3) every ORDER BY output is sorted under
// TypedValue.Compare of the ordering columns; (4) TLP on the reference: rows(Q) = rows(Q WHERE P) +
// rows(Q WHERE NOT P) + rows(Q WHERE (P) IS NULL). immudb predicates are two-valued (NULL is the smallest
// value), so the third branch is always empty.
//
// Signatures: "<class> query=<sql of the deviating variant> history=<ops> variants=<reference vs variant>",
// class = plan-diff | order-violation | tlp-violation | dml-diff, suffixed (see classify) with
// -hashjoin-residual, -intx or -negzero for the three defect families found on the unchanged tree.
package main

import (
	"context"
	"fmt"
	"math"
	"os"
	"regexp"
	"sort"
	"strings"
	"sync"
	"sync/atomic"
	"time"

	"github.com/codenotary/immudb/embedded/logger"
	"github.com/codenotary/immudb/embedded/sql"
	"github.com/codenotary/immudb/embedded/store"
	"verif/mc/lib"
)

var c *lib.Check

var params = map[string]interface{}{
	"nz": math.Copysign(0, -1),
	"t1": time.Date(2020, 1, 1, 0, 0, 0, 0, time.UTC),
	"t2": time.Date(2021, 6, 1, 12, 0, 0, 0, time.UTC),
}

const cols = "id, a, b, c, f, ts, ok"

var colPos = map[string]int{"id": 0, "a": 1, "b": 2, "c": 3, "f": 4, "ts": 5, "ok": 6}

var twins = []string{"t_pk", "t_ix", "t_late"}

// secondary indexes of t_ix / t_late ("(id)" = the primary index, forced explicitly)
var indexes = []string{"(id)", "(a)", "(b)", "(a, b)", "(c)", "(f)", "(ts)"}
var indexDDL = []string{"CREATE INDEX ON %s(a)", "CREATE INDEX ON %s(b)", "CREATE INDEX ON %s(a, b)", "CREATE UNIQUE INDEX ON %s(c)",
	"CREATE INDEX ON %s(f)", "CREATE INDEX ON %s(ts)"}

// ---- DML alphabet ------------------------------------------------------------------------------------------

type op struct {
	name  string
	stmts []string // %s = table; two statements = one BEGIN..COMMIT transaction
}

var ops = []op{
	{"I1", []string{"INSERT INTO %s(" + cols + ") VALUES (1, 1, 'ab', 10, 0.0, @t1, true)"}},
	{"I2", []string{"INSERT INTO %s(" + cols + ") VALUES (2, 1, 'b', NULL, @nz, @t2, false)"}},
	{"I3", []string{"INSERT INTO %s(" + cols + ") VALUES (3, NULL, 'ab', 30, 1.5, NULL, NULL)"}},
	{"U1", []string{"UPSERT INTO %s(" + cols + ") VALUES (1, 2, 'b', 10, @nz, @t2, true)"}},
	{"U3", []string{"UPSERT INTO %s(" + cols + ") VALUES (3, 1, NULL, 30, 0.0, @t1, false)"}},
	{"C2", []string{"INSERT INTO %s(" + cols + ") VALUES (2, 2, NULL, NULL, 1.5, @t1, NULL) ON CONFLICT DO NOTHING"}},
	{"Ua", []string{"UPDATE %s SET a = 2 WHERE a = 1"}},
	{"Ub", []string{"UPDATE %s SET a = NULL, b = 'ab' WHERE id = 2"}},
	{"Uo", []string{"UPDATE %s SET ok = false WHERE id = 1"}},
	{"D1", []string{"DELETE FROM %s WHERE id = 1"}},
	{"Da", []string{"DELETE FROM %s WHERE a = 1"}},
	{"T2", []string{"DELETE FROM %s WHERE id = 2", "INSERT INTO %s(" + cols + ") VALUES (2, 2, 'ab', NULL, 0.0, @t2, true)"}},
}

func histName(path []int) string {
	if len(path) == 0 {
		return "-"
	}
	s := make([]string, len(path))
	for i, o := range path {
		s[i] = ops[o].name
	}
	return strings.Join(s, ",")
}

func wroteNegZero(path []int) bool {
	for _, o := range path {
		for _, s := range ops[o].stmts {
			if strings.Contains(s, "@nz") {
				return true
			}
		}
	}
	return false
}

// ---- engine plumbing ---------------------------------------------------------------------------------------

type env struct {
	st *store.ImmuStore
	e  *sql.Engine
}

func openEnv(dir string, small bool) *env {
	so := store.DefaultOptions().WithSynced(false).WithMultiIndexing(true).
		WithLogger(logger.NewMemoryLoggerWithLevel(logger.LogError)).
		WithFileSize(1 << 16).WithMaxTxEntries(64).WithMaxKeyLen(256).WithMaxValueLen(512).WithMaxConcurrency(4).
		WithMaxActiveTransactions(8).WithTxLogCacheSize(8).WithVLogCacheSize(0).WithWriteBufferSize(4096).
		WithAHTOptions(store.DefaultAHTOptions().WithWriteBufferSize(4096).WithSyncThld(64)).
		WithIndexOptions(store.DefaultIndexOptions().WithFlushBufferSize(4096).WithCacheSize(64))
	st, err := store.Open(dir, so)
	if err != nil {
		panic(err)
	}
	eo := sql.DefaultOptions().WithPrefix([]byte("s"))
	if small {
		eo = eo.WithSortBufferSize(2).WithDistinctSpillThreshold(2)
	}
	e, err := sql.NewEngine(st, eo)
	if err != nil {
		panic(err)
	}
	return &env{st, e}
}

var ctx = context.Background()
var tabRe = regexp.MustCompile(`t_(pk|ix|late)`)

func errText(err error) string {
	if err == nil {
		return ""
	}
	return tabRe.ReplaceAllString(err.Error(), "T")
}

func (v *env) exec(tx *sql.SQLTx, s string) (*sql.SQLTx, string) {
	var ntx *sql.SQLTx
	var err error
	if p := lib.Catch(func() { ntx, _, err = v.e.Exec(ctx, tx, s, params) }); p != "" {
		return nil, "panic: " + strings.SplitN(p, "\n", 2)[0]
	}
	return ntx, errText(err)
}

func (v *env) must(s string) {
	if _, e := v.exec(nil, s); e != "" {
		panic(s + ": " + e)
	}
}

// applyOp runs one alphabet entry on one table, autocommit (tx == nil) or inside the open transaction.
func (v *env) applyOp(tx *sql.SQLTx, o op, tab string) (*sql.SQLTx, string) {
	if tx == nil {
		s := fmt.Sprintf(o.stmts[0], tab)
		if len(o.stmts) > 1 {
			s = "BEGIN TRANSACTION; " + s + "; " + fmt.Sprintf(o.stmts[1], tab) + "; COMMIT"
		}
		_, e := v.exec(nil, s)
		return nil, e
	}
	for _, s := range o.stmts {
		var e string
		if tx, e = v.exec(tx, fmt.Sprintf(s, tab)); e != "" {
			return nil, e
		}
	}
	return tx, ""
}

func (v *env) setup() {
	for _, t := range twins {
		v.must("CREATE TABLE " + t + "(id INTEGER, a INTEGER, b VARCHAR[3], c INTEGER, f FLOAT, ts TIMESTAMP, ok BOOLEAN, PRIMARY KEY id)")
	}
	for _, d := range indexDDL {
		v.must(fmt.Sprintf(d, "t_ix"))
	}
}

type result struct {
	err  string
	rows []string
	vals [][]sql.TypedValue
	bag  string
	list string
}

func render(v sql.TypedValue, normZero bool) string {
	if v == nil || v.IsNull() {
		return "NULL"
	}
	switch x := v.RawValue().(type) {
	case float64:
		if normZero && x == 0 {
			x = 0
		}
		return fmt.Sprintf("%g#%016x", x, math.Float64bits(x))
	case time.Time:
		return x.UTC().Format(time.RFC3339Nano)
	case string:
		return fmt.Sprintf("%q", x)
	default:
		return fmt.Sprint(x)
	}
}

func (v *env) query(tx *sql.SQLTx, s string, normZero bool) *result {
	r := &result{}
	p := lib.Catch(func() {
		rd, err := v.e.Query(ctx, tx, s, params)
		if err != nil {
			r.err = errText(err)
			return
		}
		defer rd.Close()
		for {
			row, err := rd.Read(ctx)
			if err == sql.ErrNoMoreRows {
				return
			}
			if err != nil {
				r.err, r.rows, r.vals = "read: "+errText(err), nil, nil
				return
			}
			vs := make([]string, len(row.ValuesByPosition))
			for i, x := range row.ValuesByPosition {
				vs[i] = render(x, normZero)
			}
			r.rows = append(r.rows, "("+strings.Join(vs, ",")+")")
			r.vals = append(r.vals, row.ValuesByPosition)
		}
	})
	if p != "" {
		r.err, r.rows, r.vals = "panic: "+strings.SplitN(p, "\n", 2)[0], nil, nil
	}
	if r.err != "" {
		r.bag = "ERR " + r.err
		r.list = r.bag
		return r
	}
	r.list = strings.Join(r.rows, " ")
	srt := append([]string(nil), r.rows...)
	sort.Strings(srt)
	r.bag = strings.Join(srt, " ")
	return r
}

// ---- query catalogue ---------------------------------------------------------------------------------------

type ordKey struct {
	pos  int
	desc bool
}

const (
	phTx = 1 << iota
	phCommitted
	phReopen
	phSmall
	phAll = phTx | phCommitted | phReopen
)

type query struct {
	group        string // all variants of all queries of one group must return the same rows
	tmpl         string // {T}{IX}: table + optional USE INDEX; {X},{Y}{IY}: two twins; {BEFOREk}/{UNTILk}/{SINCEk}/{AFTERk}: periods
	cls          string
	total        bool     // the requested order is total: compare as list
	ord          []ordKey // sortedness oracle
	nz           bool     // render -0.0 as 0.0 (value is a group representative)
	forced       bool     // also run with USE INDEX ON each index sharing a column with the WHERE/ORDER BY/GROUP BY (all indexes if none)
	rel          []string // those indexes
	two          bool     // two-table query
	usesF        bool     // references column f outside the select list
	nzConst      bool     // uses the constant -0.0
	hashResidual bool     // JOIN ... ON equi AND <conjunct over both tables> served by the hash join
	phases       int
	refOnly      bool   // only on t_pk (TLP helper)
	core         bool   // part of the core catalogue run on the deepest histories
	neg          bool   // NOT (atom): full scan + post-filter on any index, forced variants only after commit on t_ix
	pred         string // WHERE predicate of a plain row query (TLP bookkeeping)
}

var atoms = []string{
	"a = 1", "a <> 1", "a < 2", "a <= 1", "a > 1", "a >= 2", "a < 1", "a IN (1, 2)", "a NOT IN (1)", "a BETWEEN 1 AND 2", "a IS NULL", "a IS NOT NULL",
	"b = 'ab'", "b <> 'ab'", "b < 'b'", "b <= 'ab'", "b > 'ab'", "b >= 'b'", "b IN ('ab', 'c')", "b LIKE 'a%'", "b NOT LIKE 'a%'", "b LIKE '_'", "b IS NULL", "b IS NOT NULL",
	"c = 10", "c <> 30", "c > 10", "c <= 30", "c IN (10, 30)", "c IS NULL",
	"f = 0.0", "f <> 0.0", "f < 0.0", "f <= 0.0", "f > 0.0", "f >= 0.0", "f = 1.5", "f < 1.5", "f >= 1", "f = @nz", "f IN (0.0, 1.5)", "f IS NULL",
	"ts = @t1", "ts <> @t1", "ts < @t2", "ts >= @t2", "ts > @t1", "ts IS NULL",
	"ok = true", "ok = false", "ok <> true", "ok IS NULL", "ok IS NOT NULL",
	"id = 2", "id <> 1", "id >= 2", "id < 3", "id IN (1, 3)",
}

// reduced atom set for AND / OR pairs (all unordered pairs, both connectives, plus negation)
var pairAtoms = []string{"a = 1", "a >= 2", "a < 2", "a IS NULL", "b = 'ab'", "b > 'ab'", "f = 0.0", "id >= 2"}

var fRe = regexp.MustCompile(`\bf\b`)

func parseOrd(spec string) (ord []ordKey, total bool) {
	for _, p := range strings.Split(spec, ",") {
		f := strings.Fields(p)
		ord = append(ord, ordKey{colPos[f[0]], len(f) > 1 && f[1] == "DESC"})
		if f[0] == "id" || f[0] == "c" { // c is distinct per row (a single NULL at most)
			total = true
		}
	}
	return
}

func buildQueries(depth int) []*query {
	var qs []*query
	add := func(q *query) *query {
		if q.group == "" {
			q.group = q.tmpl
		}
		if q.phases == 0 {
			q.phases = phAll
		}
		rest := q.tmpl
		if i := strings.Index(rest, " FROM "); i >= 0 && !strings.HasPrefix(rest, "SELECT x.") {
			rest = rest[i:]
		}
		rest = strings.ReplaceAll(rest, cols, "")
		q.nzConst = strings.Contains(rest, "@nz")
		q.usesF = q.usesF || fRe.MatchString(rest) || q.nzConst
		q.hashResidual = strings.Contains(q.tmpl, " JOIN {Y} y{IY} ON ") && strings.Contains(q.tmpl, " AND y.id <> x.id")
		switch q.cls {
		case "scan", "where", "count", "order", "group", "aggregate", "period", "history", "tlp1":
			q.core = true
		}
		q.neg = q.cls == "where" && strings.HasPrefix(q.pred, "NOT ")
		if q.forced {
			for _, ix := range indexes {
				for _, cn := range strings.Split(strings.Trim(ix, "()"), ", ") {
					if ix == "(id)" || regexp.MustCompile(`\b`+cn+`\b`).MatchString(rest) {
						q.rel = append(q.rel, ix)
						break
					}
				}
			}
			if len(q.rel) == 1 {
				if q.rel = indexes; regexp.MustCompile(`\b(id|ok)\b`).MatchString(rest) {
					q.rel = []string{"(id)", "(a)"}
				}
			}
		}
		qs = append(qs, q)
		return q
	}
	where := func(p string) string {
		if p == "" {
			return ""
		}
		return " WHERE " + p
	}
	// 1. plain row queries: every atom, its negation, its IS NULL branch; AND/OR pairs and their negation
	add(&query{tmpl: "SELECT " + cols + " FROM {T}{IX}", cls: "scan", forced: true, pred: "TRUE"})
	add(&query{tmpl: "SELECT * FROM {T}{IX}", cls: "scan", forced: true})
	var preds []string
	for _, a := range atoms {
		preds = append(preds, a)
		for _, p := range []string{a, "NOT (" + a + ")"} {
			add(&query{tmpl: "SELECT " + cols + " FROM {T}{IX} WHERE " + p, cls: "where", forced: true, pred: p})
		}
		add(&query{tmpl: "SELECT " + cols + " FROM {T} WHERE (" + a + ") IS NULL", cls: "tlp1", refOnly: true, phases: phCommitted})
		add(&query{tmpl: "SELECT COUNT(*) FROM {T}{IX} WHERE " + a, cls: "count", forced: true})
	}
	add(&query{tmpl: "SELECT COUNT(*) FROM {T}{IX}", cls: "count", forced: true})
	for i, p := range pairAtoms {
		for _, q := range pairAtoms[i+1:] {
			for _, con := range []string{" AND ", " OR "} {
				pq := p + con + q
				preds = append(preds, pq)
				add(&query{tmpl: "SELECT " + cols + " FROM {T}{IX} WHERE " + pq, cls: "where2", forced: true, pred: pq})
				add(&query{tmpl: "SELECT " + cols + " FROM {T}{IX} WHERE NOT (" + pq + ")", cls: "where2", forced: true, pred: "NOT (" + pq + ")", phases: phCommitted})
				add(&query{tmpl: "SELECT " + cols + " FROM {T} WHERE (" + pq + ") IS NULL", cls: "tlp", refOnly: true, phases: phCommitted})
			}
		}
		add(&query{tmpl: "SELECT COUNT(*) FROM {T}{IX} WHERE " + p + " AND id >= 1", cls: "count", forced: true})
	}
	// 1b. range merging: every pair of bounds on the indexed column a (operators <, <=, >, >=, = x constants 1, 2), AND / OR:
	// two bounds on the same side with mixed strictness, empty and degenerate ranges
	var bounds []string
	for _, o := range []string{"<", "<=", ">", ">=", "="} {
		for _, v := range []string{"1", "2"} {
			bounds = append(bounds, "a "+o+" "+v)
		}
	}
	for i, p := range bounds {
		for _, q := range bounds[i+1:] {
			for _, con := range []string{" AND ", " OR "} {
				pq := p + con + q
				add(&query{tmpl: "SELECT " + cols + " FROM {T}{IX} WHERE " + pq, cls: "range2", forced: true, pred: pq})
			}
		}
	}
	tlpPreds = preds
	// 2. ORDER BY (one / two columns, asc / desc), LIMIT / OFFSET only under a total order
	var orders []string
	for _, cn := range []string{"id", "a", "b", "c", "f", "ts", "ok"} {
		orders = append(orders, cn, cn+" DESC")
	}
	orders = append(orders, "a, b", "a DESC, b DESC", "a, b DESC", "b, a", "a, id", "a DESC, id DESC", "a DESC, id", "b, id", "b DESC, id DESC", "f, id", "ts, id DESC", "ok, id", "c, a")
	for _, o := range orders {
		ord, total := parseOrd(o)
		ps := []string{"", "a = 1"}
		if len(ord) > 1 {
			ps = append(ps, "b >= 'ab'", "a >= 1 AND b = 'ab'")
		}
		for _, p := range ps {
			add(&query{tmpl: "SELECT " + cols + " FROM {T}{IX}" + where(p) + " ORDER BY " + o, cls: "order", forced: true, ord: ord, total: total, phases: phAll | phSmall})
		}
		if total && o != "c, a" && o != "ok, id" && o != "a DESC, id" {
			for _, lim := range []string{" LIMIT 1", " LIMIT 2 OFFSET 1"} { // top-N heap / full sort + offset
				for _, p := range []string{"", "a >= 1"} {
					add(&query{tmpl: "SELECT " + cols + " FROM {T}{IX}" + where(p) + " ORDER BY " + o + lim, cls: "limit", forced: true, ord: ord, total: true, phases: phAll | phSmall})
				}
			}
		}
	}
	// 3. DISTINCT
	for _, d := range []string{"a", "b", "a, b", "ok", "f", "ts"} {
		for _, p := range []string{"", "b = 'ab'"} {
			add(&query{tmpl: "SELECT DISTINCT " + d + " FROM {T}{IX}" + where(p), cls: "distinct", forced: true, phases: phAll | phSmall})
		}
	}
	add(&query{tmpl: "SELECT DISTINCT a FROM {T}{IX} ORDER BY a", cls: "distinct", forced: true, total: true, ord: []ordKey{{0, false}}, phases: phAll | phSmall})
	add(&query{tmpl: "SELECT DISTINCT b FROM {T}{IX} ORDER BY b DESC", cls: "distinct", forced: true, total: true, ord: []ordKey{{0, true}}, phases: phAll | phSmall})
	// 4. GROUP BY + aggregates (SUM/AVG only over INTEGER; no aggregate over f), global aggregates
	for _, p := range []string{"", "b = 'ab'", "id >= 2"} {
		for _, ob := range []string{"", " ORDER BY a", " ORDER BY a DESC"} {
			q := add(&query{tmpl: "SELECT a, COUNT(*), SUM(id), MIN(id), MAX(id), MIN(b), MAX(b), COUNT(c), AVG(id) FROM {T}{IX}" + where(p) + " GROUP BY a" + ob, cls: "group", forced: true, phases: phAll | phSmall})
			if ob != "" {
				q.total, q.ord = true, []ordKey{{0, strings.HasSuffix(ob, "DESC")}}
			}
		}
		add(&query{tmpl: "SELECT COUNT(*), SUM(a), MIN(a), MAX(a), MIN(b), MAX(b), COUNT(a), COUNT(b), AVG(a), MIN(ts), MAX(c) FROM {T}{IX}" + where(p), cls: "aggregate", forced: true})
	}
	add(&query{tmpl: "SELECT b, COUNT(*), SUM(a), MIN(a), MAX(a) FROM {T}{IX} GROUP BY b", cls: "group", forced: true, phases: phAll | phSmall})
	add(&query{tmpl: "SELECT b, COUNT(*), SUM(id) FROM {T}{IX} GROUP BY b ORDER BY b", cls: "group", forced: true, total: true, ord: []ordKey{{0, false}}, phases: phAll | phSmall})
	add(&query{tmpl: "SELECT a, b, COUNT(*), SUM(id) FROM {T}{IX} GROUP BY a, b", cls: "group", forced: true, phases: phAll | phSmall})
	add(&query{tmpl: "SELECT a, b, COUNT(*), SUM(id) FROM {T}{IX} GROUP BY a, b ORDER BY a, b", cls: "group", forced: true, total: true, ord: []ordKey{{0, false}, {1, false}}, phases: phAll | phSmall})
	add(&query{tmpl: "SELECT a, COUNT(*) FROM {T}{IX} GROUP BY a HAVING COUNT(*) > 1", cls: "group", forced: true})
	add(&query{tmpl: "SELECT ok, COUNT(*), MAX(id) FROM {T}{IX} GROUP BY ok", cls: "group", forced: true})
	add(&query{tmpl: "SELECT ts, COUNT(*), MIN(id) FROM {T}{IX} GROUP BY ts", cls: "group", forced: true})
	add(&query{tmpl: "SELECT f, COUNT(*), SUM(id) FROM {T}{IX} GROUP BY f", cls: "group", forced: true, nz: true})
	add(&query{tmpl: "SELECT COUNT(DISTINCT a), COUNT(DISTINCT b) FROM {T}{IX}", cls: "aggregate", forced: true})
	// 5. joins of two twins. Within a group every formulation is the same join (inner join: ON c1 AND c2 ==
	// ON c1 WHERE c2 == cross join WHERE c1 AND c2; LATERAL over a plain table is a no-op) but is served by
	// the hash join, the nested loop with pushed-down predicates, or the plain nested loop.
	jsel := "SELECT x.id, x.a, y.id, y.b FROM {X} x "
	for _, jc := range []string{"x.id = y.id", "x.a = y.a", "x.b = y.b", "x.a = y.a AND x.b = y.b", "x.f = y.f", "x.ts = y.ts"} {
		g := "inner join on " + jc
		add(&query{group: g, tmpl: jsel + ", {Y} y WHERE " + jc, cls: "join", two: true})
		add(&query{group: g, tmpl: jsel + "INNER JOIN LATERAL {Y} y ON " + jc, cls: "join", two: true})
		add(&query{group: g, tmpl: jsel + "INNER JOIN {Y} y{IY} ON " + jc, cls: "join", two: true})
		g = "left join on " + jc
		add(&query{group: g, tmpl: jsel + "LEFT JOIN LATERAL {Y} y ON " + jc, cls: "join", two: true})
		add(&query{group: g, tmpl: jsel + "LEFT JOIN {Y} y{IY} ON " + jc, cls: "join", two: true})
	}
	for _, w := range []string{"y.id <> x.id", "y.b = 'ab'", "x.b = 'ab'", "y.a IS NULL", "y.id >= 2 AND x.id < 3"} {
		for _, jc := range []string{"x.a = y.a", "x.id = y.id"} {
			g := "inner join on " + jc + " and " + w
			add(&query{group: g, tmpl: jsel + ", {Y} y WHERE " + jc + " AND " + w, cls: "join", two: true})
			add(&query{group: g, tmpl: jsel + "INNER JOIN LATERAL {Y} y ON " + jc + " AND " + w, cls: "join", two: true})
			add(&query{group: g, tmpl: jsel + "INNER JOIN {Y} y{IY} ON " + jc + " WHERE " + w, cls: "join", two: true})
			add(&query{group: g, tmpl: jsel + "INNER JOIN {Y} y{IY} ON " + jc + " AND " + w, cls: "join", two: true})
			g = "left join on " + jc + " and " + w
			add(&query{group: g, tmpl: jsel + "LEFT JOIN LATERAL {Y} y ON " + jc + " AND " + w, cls: "join", two: true})
			add(&query{group: g, tmpl: jsel + "LEFT JOIN {Y} y{IY} ON " + jc + " AND " + w, cls: "join", two: true})
			g = "left join on " + jc + " where " + w
			add(&query{group: g, tmpl: jsel + "LEFT JOIN LATERAL {Y} y ON " + jc + " WHERE " + w, cls: "join", two: true})
			add(&query{group: g, tmpl: jsel + "LEFT JOIN {Y} y{IY} ON " + jc + " WHERE " + w, cls: "join", two: true})
		}
	}
	add(&query{tmpl: "SELECT x.a, COUNT(*), SUM(y.id) FROM {X} x INNER JOIN {Y} y{IY} ON x.a = y.a GROUP BY x.a", cls: "join", two: true})
	add(&query{tmpl: "SELECT x.id, y.id FROM {X} x INNER JOIN {Y} y{IY} ON x.a = y.a ORDER BY x.id, y.id DESC", cls: "join", two: true, total: true, ord: []ordKey{{0, false}, {1, true}}})
	add(&query{tmpl: "SELECT COUNT(*) FROM {X} x LEFT JOIN {Y} y{IY} ON x.b = y.b", cls: "join", two: true})
	// 6. subqueries
	for _, s := range []string{
		"SELECT " + cols + " FROM {X} WHERE a IN (SELECT a FROM {Y}{IY} WHERE id <> 2)",
		"SELECT " + cols + " FROM {X} WHERE a NOT IN (SELECT a FROM {Y}{IY} WHERE b = 'ab')",
		"SELECT " + cols + " FROM {X} WHERE b IN (SELECT b FROM {Y}{IY} WHERE a = 1)",
		"SELECT x.id FROM {X} x WHERE EXISTS (SELECT y.id FROM {Y} y{IY} WHERE y.a = x.a AND y.id <> x.id)",
		"SELECT x.id FROM {X} x WHERE NOT EXISTS (SELECT y.id FROM {Y} y{IY} WHERE y.b = x.b AND y.id > x.id)",
		"SELECT " + cols + " FROM {X} WHERE id = (SELECT MAX(id) FROM {Y}{IY})",
		"SELECT " + cols + " FROM {X} WHERE a = (SELECT MIN(a) FROM {Y}{IY} WHERE a IS NOT NULL)",
		"SELECT id, (SELECT COUNT(*) FROM {Y}{IY}) FROM {X}",
		"SELECT s.id, s.a FROM (SELECT id, a FROM {X} WHERE a = 1) s WHERE s.id >= 2",
		"SELECT id FROM {X} WHERE a = 1 UNION SELECT id FROM {Y}{IY} WHERE b = 'ab'",
	} {
		add(&query{tmpl: s, cls: "subquery", two: true})
	}
	// 7. time travel: the state before / up to statement k, the rows written since / after statement k
	for k := 0; k < depth; k++ {
		for _, per := range []string{"BEFORE", "UNTIL", "SINCE", "AFTER"} {
			ph := fmt.Sprintf("{%s%d}", per, k)
			add(&query{tmpl: "SELECT " + cols + " FROM {T} " + ph + "{IX}", cls: "period", forced: true, phases: phCommitted | phReopen})
			add(&query{tmpl: "SELECT " + cols + " FROM {T} " + ph + " WHERE a = 1", cls: "period", phases: phCommitted | phReopen})
			add(&query{tmpl: "SELECT " + cols + " FROM {T} " + ph + " WHERE b = 'ab' ORDER BY b, id", cls: "period", phases: phCommitted | phReopen})
		}
	}
	add(&query{tmpl: "SELECT id, a, b, f, _rev FROM (HISTORY OF {T})", cls: "history", phases: phCommitted | phReopen})
	add(&query{tmpl: "SELECT id, a, _rev FROM (HISTORY OF {T}) WHERE a = 1", cls: "history", phases: phCommitted | phReopen})
	return qs
}

var tlpPreds []string

const perHistCap = 25 // violations kept per history and class

// ---- exploration of one history ----------------------------------------------------------------------------

type viol struct{ sig, detail string }

type diff struct {
	kind                   string
	q                      *query
	phase, vkey            string
	what, variants, detail string
}

type hist struct {
	path  []int
	name  string
	nz    bool
	v     *env
	tx    *sql.SQLTx
	txOf  map[string][]uint64 // table -> tx id in which statement k was applied
	refs  map[string]map[string]*result
	refQ  map[string]string
	core  bool // deepest level: core catalogue only
	abort bool // time budget reached in the middle of the catalogue: the history does not count
	viols []viol
	diffs []diff
	nq    int64
	npc   map[string]int
}

// report records one oracle failure; the class word is decided at the end of the history (classify).
func (h *hist) report(kind string, q *query, phase, vkey, what, variants, detail string) {
	h.diffs = append(h.diffs, diff{kind, q, phase, vkey, what, variants, detail})
}

// classify turns the recorded failures into violations. The class word names the family mechanically:
//
//	-hashjoin-residual  the query is a hash-join shape whose ON clause has a conjunct over both tables
//	-intx               the variant differs from the reference only inside the open transaction
//	-negzero            the query compares/orders/groups/joins on f (or forces the index on f) and -0.0 was written
//	                    by the history or is the query constant
func (h *hist) classify() {
	committed := map[string]bool{}
	for _, d := range h.diffs {
		if d.phase == "committed" {
			committed[d.kind+d.q.tmpl+"\x00"+d.vkey] = true
		}
	}
	for _, d := range h.diffs {
		cls := d.kind
		switch {
		case d.q.hashResidual:
			cls += "-hashjoin-residual"
		case d.phase == "tx" && !committed[d.kind+d.q.tmpl+"\x00"+d.vkey]:
			cls += "-intx"
		case (d.q.usesF || strings.Contains(d.vkey, "(f)")) && (h.nz || d.q.nzConst):
			cls += "-negzero"
		}
		h.npc[cls]++
		if h.npc[cls] <= perHistCap { // per history and class; execution order is deterministic
			sig := cls + " " + d.what + " history=" + h.name
			if d.variants != "" {
				sig += " variants=" + d.variants
			}
			h.viols = append(h.viols, viol{sig, d.detail})
		}
	}
}

var perRe = regexp.MustCompile(`\{(BEFORE|UNTIL|SINCE|AFTER)(\d)\}`)

// instantiate returns the SQL of q for table x (index clause ix) and second table y (iy); ok=false when a
// period placeholder refers to a statement the history does not have.
func (h *hist) instantiate(q *query, x, ix, y, iy string) (string, bool) {
	s := q.tmpl
	ok := true
	s = perRe.ReplaceAllStringFunc(s, func(m string) string {
		sm := perRe.FindStringSubmatch(m)
		k := int(sm[2][0] - '0')
		if k >= len(h.path) {
			ok = false
			return m
		}
		return fmt.Sprintf("%s TX %d", sm[1], h.txOf[x][k])
	})
	use := func(i string) string {
		if i == "" {
			return ""
		}
		return " USE INDEX ON " + i
	}
	for _, r := range [][2]string{{"{T}", x}, {"{X}", x}, {"{IX}", use(ix)}, {"{Y}", y}, {"{IY}", use(iy)}} {
		s = strings.ReplaceAll(s, r[0], r[1])
	}
	return s, ok
}

func (h *hist) sorted(q *query, r *result) (bool, string) {
	for i := 1; i < len(r.vals); i++ {
		for _, k := range q.ord {
			cmp, err := r.vals[i-1][k.pos].Compare(r.vals[i][k.pos])
			if err != nil {
				return false, "Compare: " + err.Error()
			}
			if k.desc {
				cmp = -cmp
			}
			if cmp > 0 {
				return false, fmt.Sprintf("row %d %s precedes row %d %s", i-1, r.rows[i-1], i, r.rows[i])
			}
			if cmp < 0 {
				break
			}
		}
	}
	return true, ""
}

// runPhase executes every query of the phase on the given tables (first table first: it provides the
// reference of the phase when none exists yet) and compares within the phase.
func (h *hist) runPhase(qs []*query, phase int, pname string, tables []string, must string) {
	refs := h.refs[pname]
	if refs == nil {
		refs = map[string]*result{}
		h.refs[pname] = refs
	}
	for _, q := range qs {
		if q.phases&phase == 0 || (h.core && (!q.core || phase == phSmall)) {
			continue
		}
		type variant struct{ x, ix, y, iy string }
		var vs []variant
		ixOf := func(t string) []string {
			if t == "t_pk" || !q.forced || phase == phSmall || (phase == phReopen && q.cls != "scan" && q.cls != "period") || (q.neg && (phase != phCommitted || t != "t_ix")) {
				return []string{""}
			}
			return append([]string{""}, q.rel...)
		}
		for _, x := range tables {
			if q.refOnly && x != "t_pk" {
				continue
			}
			if !q.two {
				if must != "" && x != must {
					continue
				}
				for _, ix := range ixOf(x) {
					vs = append(vs, variant{x, ix, "", ""})
				}
				continue
			}
			for _, y := range tables {
				if must != "" && x != must && y != must {
					continue
				}
				if len(tables) == 3 && x != y && !(x == "t_pk" && y == "t_ix") {
					continue // reopened: the three self joins and pk x ix
				}
				vs = append(vs, variant{x, "", y, ""})
				if x == "t_pk" && y != "t_pk" && strings.Contains(q.tmpl, "{IY}") && phase == phCommitted {
					vs = append(vs, variant{x, "", y, "(a)"}, variant{x, "", y, "(b)"})
				}
			}
		}
		if h.abort = h.abort || (!replaying && c.Expired()); h.abort {
			return
		}
		for _, vr := range vs {
			s, ok := h.instantiate(q, vr.x, vr.ix, vr.y, vr.iy)
			if !ok {
				continue
			}
			r := h.v.query(h.tx, s, q.nz)
			h.nq++
			vname := strings.TrimSpace(vr.x + " " + vr.ix)
			if vr.y != "" {
				vname += "+" + strings.TrimSpace(vr.y+" "+vr.iy)
			}
			vkey := vname
			vname += "@" + pname
			if r.err == "" && len(q.ord) > 0 {
				if ok, why := h.sorted(q, r); !ok {
					h.report("order-violation", q, pname, vkey, "query="+s, vname, fmt.Sprintf("%s: output not sorted by the ORDER BY columns under TypedValue.Compare: %s\nrows: %s", vname, why, r.list))
				}
			}
			ref := refs[q.group]
			if ref == nil {
				refs[q.group] = r
				h.refQ[pname+"\x00"+q.group] = vname + ": " + s
				continue
			}
			same := ref.bag == r.bag
			if q.total {
				same = ref.list == r.list
			}
			if !same {
				rq := h.refQ[pname+"\x00"+q.group]
				h.report("plan-diff", q, pname, vkey, "query="+s, strings.SplitN(rq, ":", 2)[0]+" vs "+vname,
					fmt.Sprintf("reference %s\n  => %s\nvariant %s: %s\n  => %s", rq, ref.list, vname, s, r.list))
			}
		}
	}
}

// comparePhases: the reference (t_pk, default plan) result of every group must not depend on the phase.
func (h *hist) comparePhases(qs []*query) {
	base := h.refs["committed"]
	for _, pn := range []string{"tx", "reopen", "small"} {
		for _, q := range qs {
			r, b := h.refs[pn][q.group], base[q.group]
			if r == nil || b == nil || h.refQ[pn+"\x00"+q.group] == "" {
				continue
			}
			same := r.bag == b.bag
			if q.total {
				same = r.list == b.list
			}
			if !same {
				rq, bq := h.refQ[pn+"\x00"+q.group], h.refQ["committed\x00"+q.group]
				h.report("plan-diff", q, "phase:"+pn, "t_pk", "query="+strings.SplitN(bq, ": ", 2)[1], strings.SplitN(bq, ":", 2)[0]+" vs "+strings.SplitN(rq, ":", 2)[0],
					fmt.Sprintf("%s\n  => %s\n%s\n  => %s", bq, b.list, rq, r.list))
			}
			delete(h.refQ, pn+"\x00"+q.group) // groups are shared by several queries: compare once
		}
	}
}

func (h *hist) tlp() {
	base := h.refs["committed"]
	g := func(p string) *result {
		if p == "TRUE" {
			return base["SELECT "+cols+" FROM {T}{IX}"]
		}
		return base["SELECT "+cols+" FROM {T}{IX} WHERE "+p]
	}
	all := g("TRUE")
	for _, p := range tlpPreds {
		rp, rn := g(p), g("NOT ("+p+")")
		ru := base["SELECT "+cols+" FROM {T} WHERE ("+p+") IS NULL"]
		if h.core && (rp == nil || ru == nil) {
			continue // AND/OR pairs are not part of the core catalogue
		}
		if all == nil || rp == nil || rn == nil || ru == nil {
			panic("tlp bookkeeping: " + p)
		}
		if all.err != "" || rp.err != "" || rn.err != "" || ru.err != "" {
			continue // error agreement is covered by the differential oracle
		}
		u := append(append(append([]string(nil), rp.rows...), rn.rows...), ru.rows...)
		sort.Strings(u)
		if strings.Join(u, " ") != all.bag {
			q := &query{tmpl: p, usesF: fRe.MatchString(p) || strings.Contains(p, "@nz"), nzConst: strings.Contains(p, "@nz")}
			h.report("tlp-violation", q, "committed", "t_pk", "pred="+p, "", fmt.Sprintf("t_pk after commit: rows(Q)=%s but P: %s | NOT P: %s | P IS NULL: %s", all.bag, rp.bag, rn.bag, ru.bag))
		}
	}
}

var (
	nHist, nCanon, nCore, nAborted, nQueries, nDMLFail, nDMLNoop int64
	replaying                                                    bool
	stateMu                                                      sync.Mutex
	states                                                       = map[string]bool{}
	refErrs                                                      = map[string]string{}
)

// runDML executes the history statement by statement on all twins (autocommit) and checks twin agreement.
// It returns whether every statement changed the store (canonical history) and the final t_pk content.
func runDML(path []int, name string, out *[]viol) (canonical bool, content string) {
	dir := lib.Scratch("c11")
	defer os.RemoveAll(dir)
	v := openEnv(dir, false)
	defer v.st.Close()
	v.setup()
	canonical = true
	for k, o := range path {
		var errs [3]string
		before := v.st.LastCommittedTxID()
		for i, t := range twins {
			_, errs[i] = v.applyOp(nil, ops[o], t)
		}
		switch {
		case errs[0] != "":
			atomic.AddInt64(&nDMLFail, 1)
		case v.st.LastCommittedTxID() == before:
			atomic.AddInt64(&nDMLNoop, 1)
		}
		if errs[0] != "" || v.st.LastCommittedTxID() != before+3 { // effective = one store tx per twin
			canonical = false
		}
		var cont [3]string
		for i, t := range twins {
			cont[i] = v.query(nil, "SELECT "+cols+" FROM "+t, false).bag
		}
		content = cont[0]
		if errs[0] != errs[1] || errs[0] != errs[2] || cont[0] != cont[1] || cont[0] != cont[2] {
			*out = append(*out, viol{fmt.Sprintf("dml-diff step=%d history=%s", k, name),
				fmt.Sprintf("statement %s: outcome t_pk=%q t_ix=%q t_late=%q; content after it t_pk=[%s] t_ix=[%s] t_late=[%s]", ops[o].name, errs[0], errs[1], errs[2], cont[0], cont[1], cont[2])})
			return false, content
		}
	}
	return canonical, content
}

func explore(qs []*query, path []int, core bool) {
	name := histName(path)
	var viols []viol
	defer func() {
		for _, x := range viols {
			c.Violate(lib.Violation{Sig: x.sig, Detail: x.detail, Replay: map[string]any{"path": path, "core": core}})
		}
	}()
	atomic.AddInt64(&nHist, 1)
	canonical, content := runDML(path, name, &viols)
	stateMu.Lock()
	states[content] = true
	stateMu.Unlock()
	if !canonical {
		return
	}
	dir := lib.Scratch("c11")
	defer os.RemoveAll(dir)
	h := &hist{path: path, name: name, core: core, nz: wroteNegZero(path), v: openEnv(dir, false), txOf: map[string][]uint64{}, refs: map[string]map[string]*result{}, refQ: map[string]string{}, npc: map[string]int{}}
	defer func() { h.v.st.Close() }()
	defer func() {
		if h.abort {
			atomic.AddInt64(&nAborted, 1)
			return
		}
		h.classify()
		viols = append(viols, h.viols...)
		atomic.AddInt64(&nCanon, 1)
		if core {
			atomic.AddInt64(&nCore, 1)
		}
		atomic.AddInt64(&nQueries, h.nq)
		c.Distinct(name)
	}()
	h.v.setup()
	for k, o := range path {
		if k == len(path)-1 {
			break
		}
		for _, t := range twins {
			if _, e := h.v.applyOp(nil, ops[o], t); e != "" {
				panic("replay of a canonical history failed: " + e)
			}
			h.txOf[t] = append(h.txOf[t], h.v.st.LastCommittedTxID())
		}
	}
	if n := len(path); n > 0 {
		tx, e := h.v.exec(nil, "BEGIN TRANSACTION")
		if e != "" || tx == nil {
			panic("BEGIN: " + e)
		}
		for _, t := range twins {
			if tx, e = h.v.applyOp(tx, ops[path[n-1]], t); e != "" {
				// the statement succeeded in autocommit mode but fails inside an explicit transaction
				viols = append(viols, viol{fmt.Sprintf("dml-diff step=%d-in-tx history=%s", n-1, name), fmt.Sprintf("statement %s on %s succeeds in autocommit mode but fails inside BEGIN..COMMIT: %s", ops[path[n-1]].name, t, e)})
				return
			}
		}
		h.tx = tx
		h.runPhase(qs, phTx, "tx", []string{"t_pk", "t_ix"}, "")
		h.tx = nil
		if _, e := h.v.exec(tx, "COMMIT"); e != "" {
			panic("COMMIT: " + e)
		}
		for _, t := range twins {
			h.txOf[t] = append(h.txOf[t], h.v.st.LastCommittedTxID())
		}
	}
	h.runPhase(qs, phCommitted, "committed", []string{"t_pk", "t_ix"}, "")
	for _, d := range indexDDL {
		d = strings.Replace(d, "UNIQUE ", "", 1) // unique indexes can only be created on empty tables
		if _, e := h.v.exec(nil, fmt.Sprintf(d, "t_late")); e != "" {
			viols = append(viols, viol{fmt.Sprintf("dml-diff late-index history=%s", name), fmt.Sprintf("%s on the populated twin failed: %s", fmt.Sprintf(d, "t_late"), e)})
			return
		}
	}
	h.runPhase(qs, phCommitted, "committed", []string{"t_pk", "t_late"}, "t_late")
	for i, small := range []bool{false, true} {
		h.v.st.Close()
		h.v = openEnv(dir, small)
		h.runPhase(qs, []int{phReopen, phSmall}[i], []string{"reopen", "small"}[i], []string{"t_pk", "t_ix", "t_late"}, "")
	}
	if h.abort {
		return
	}
	h.tlp()
	h.comparePhases(qs)
	stateMu.Lock()
	for g, r := range h.refs["committed"] {
		if r.err != "" {
			refErrs[g] = r.err
		}
	}
	stateMu.Unlock()
	if len(path) == 2 && path[0] == 0 {
		c.Sample(map[string]any{"history": name, "content": content, "queries_executed": h.nq})
	}
}

func main() {
	c = lib.New("C11", "model_checking", 100*time.Second, 25*time.Minute)
	c.Assume("single session, sequential statements; concurrent writers are covered by C06/C13")
	c.Assume("immudb predicates are two-valued (NULL compares as the smallest value): the TLP branch `(P) IS NULL` is required to be empty by construction, the partition reduces to P / NOT P")
	c.Assume("queries with different text are compared only when SQL defines them as the same query: INNER JOIN ON c1 AND c2 = ON c1 WHERE c2 = cross join WHERE c1 AND c2; LATERAL over a base table = plain join")
	maxDepth := 3
	if c.Thorough() {
		maxDepth = 4
	}
	qs := buildQueries(maxDepth)
	if c.ReplayPath != "" {
		var r struct {
			Path []int `json:"path"`
			Core bool  `json:"core"`
		}
		c.LoadReplay(&r)
		replaying = true
		explore(qs, r.Path, r.Core)
		c.AddEvals(nQueries)
		c.AddStates(1, 1)
		c.Finish("replay of one recorded history", false)
	}
	groups := map[string]bool{}
	perCls := map[string]int{}
	for _, q := range qs {
		groups[q.group] = true
		perCls[q.cls]++
	}
	c.Set("alphabet", func() (s []string) {
		for _, o := range ops {
			s = append(s, o.name+": "+strings.Join(o.stmts, "; "))
		}
		return
	}())
	c.Set("query_templates", len(qs))
	nCoreT := 0
	for _, q := range qs {
		if q.core {
			nCoreT++
		}
	}
	c.Set("query_templates_core", nCoreT)
	c.Set("query_groups", len(groups))
	c.Set("query_templates_by_class", perCls)
	done := 0
	explore(qs, nil, false)
	for d := 1; d <= maxDepth && !c.Expired(); d++ {
		n := 1
		for i := 0; i < d; i++ {
			n *= len(ops)
		}
		var skipped int64
		c.ParallelFor(n, func(i int) {
			if c.Expired() {
				atomic.AddInt64(&skipped, 1)
				return
			}
			path := make([]int, d)
			for k := d - 1; k >= 0; k-- {
				path[k] = i % len(ops)
				i /= len(ops)
			}
			explore(qs, path, d == maxDepth && d > 2)
		})
		if skipped > 0 || nAborted > 0 {
			c.CapHit(fmt.Sprintf("time budget reached at depth %d: %d of %d histories not started, %d abandoned in the middle of the query catalogue", d, skipped, n, nAborted))
			break
		}
		done = d
	}
	if done < maxDepth && nAborted == 0 && c.Expired() {
		c.CapHit(fmt.Sprintf("time budget reached after depth %d", done))
	}
	c.Set("depth_completed", done)
	c.Set("depth_target", maxDepth)
	c.Set("histories", nHist)
	c.Set("canonical_histories_queried", nCanon)
	c.Set("canonical_histories_queried_with_core_catalogue_only", nCore)
	c.Set("distinct_table_contents", len(states))
	c.Set("dml_statements_failing_identically", nDMLFail)
	c.Set("dml_statements_without_effect", nDMLNoop)
	c.Set("query_executions", nQueries)
	re := []string{}
	for g, e := range refErrs {
		re = append(re, g+" => "+e)
	}
	sort.Strings(re)
	c.Set("query_groups_failing_on_every_plan", re)
	c.AddEvals(nQueries)
	c.AddStates(nCanon, nHist)
	c.Finish(fmt.Sprintf("every DML history over the %d-statement alphabet up to depth_completed on three twin tables (error/content agreement after every statement); for every canonical history (all statements effective = distinct physical state) below the deepest level %d query templates in %d equivalence groups, at the deepest level the %d core templates (scans, WHERE atoms, COUNT, ORDER BY, GROUP BY/aggregates, periods, HISTORY OF), x {t_pk, t_ix, t_late} x {default plan, USE INDEX ON each relevant index of %d} x {open tx, committed, late indexes, reopened, reopened with 2-row sort buffer}: same multiset (list under a total ORDER BY) as the t_pk reference of the phase, same reference in every phase, sortedness under TypedValue.Compare, TLP partition; distinct = canonical histories", len(ops), len(qs), len(groups), nCoreT, len(indexes)), done == maxDepth)
}
