// C14 — value-log truncation keeps everything at or after the cut readable.
//
//	Part A (explicit enumeration, run under the controlled scheduler with the default schedule so that a leaked
//	lock shows up as a deadlock): every history shape up to a length x every cut point x IO-concurrency / chunk
//	size configurations; truncate, check, truncate again, export everything, reopen, commit.
//	Part B (E1): two committers whose values land out of id order + truncator + reader, all schedules up to the
//	preemption bound.
package main

import (
	"bytes"
	"context"
	"fmt"
	"os"
	"strings"
	"time"

	"github.com/codenotary/immudb/embedded/store"
	"github.com/codenotary/immudb/embedded/vhooks/vos"
	"github.com/codenotary/immudb/embedded/vhooks/vsched"
	"verif/mc/lib"
	"verif/mc/sched"
	"verif/mc/storeh"
)

var c *lib.Check

type cfg struct {
	FileSize int
	IO       int
}

func opts(cf cfg) *store.Options {
	return storeh.SmallOptions().WithFileSize(cf.FileSize).WithMaxIOConcurrency(cf.IO).WithMaxValueLen(64).WithVLogCacheSize(0)
}

// transaction shapes: value lengths of the entries (0 = empty value)
// ([23] after [40] puts the next value on the last byte of a 64-byte chunk)
var shapes = [][]int{{10}, {0, 40}, {40, 0, 10}, {40, 40}, {23}}
var shapeNames = []string{"[10]", "[0,40]", "[40,0,10]", "[40,40]", "[23]"}

func commitShape(st *store.ImmuStore, i int, shape []int) (*store.TxHeader, error) {
	ctx := context.Background()
	tx, err := st.NewWriteOnlyTx(ctx)
	if err != nil {
		return nil, err
	}
	for e, l := range shape {
		if err := tx.Set([]byte(fmt.Sprintf("k%d", e)), nil, bytes.Repeat([]byte{byte('a' + i)}, l)); err != nil {
			return nil, err
		}
	}
	return tx.Commit(ctx)
}

// checkAfterCut: everything the property promises after TruncateUptoTx(cut).
func checkAfterCut(st *store.ImmuStore, l *storeh.Ledger, exports map[uint64][]byte, cut uint64, phase string) (string, string) {
	n := st.LastCommittedTxID()
	min := cut
	if min > n+1 {
		min = n + 1
	}
	if d := l.CheckHistory(st, min); d != "" {
		return "history-after-truncation phase=" + phase + " " + classify(d), d
	}
	// exporting ANY transaction terminates, and leaves the store able to serve the next request
	tx := store.NewTx(st.MaxTxEntries(), st.MaxKeyLen())
	for k := uint64(1); k <= n; k++ {
		bs, err := st.ExportTx(k, false, false, tx)
		if k >= cut {
			if err != nil {
				return "export-failed-at-or-after-cut phase=" + phase, fmt.Sprintf("ExportTx(%d) after TruncateUptoTx(%d): %v", k, cut, err)
			}
			if want, ok := exports[k]; ok && !bytes.Equal(bs, want) {
				return "export-changed-at-or-after-cut phase=" + phase, fmt.Sprintf("ExportTx(%d) differs from the export taken before truncation", k)
			}
		}
	}
	// index entries intact: latest version of every key
	ctx := context.Background()
	if err := st.WaitForIndexingUpto(ctx, n); err != nil {
		return "indexing-failed phase=" + phase, err.Error()
	}
	for e := 0; e < 3; e++ {
		key := []byte(fmt.Sprintf("k%d", e))
		vr, err := st.Get(ctx, key)
		if err != nil {
			continue // key never written
		}
		if vr.Tx() >= cut {
			b, err := vr.Resolve()
			if err != nil {
				return "get-failed-at-or-after-cut phase=" + phase, fmt.Sprintf("Get(%s) -> tx %d >= cut %d, Resolve: %v", key, vr.Tx(), cut, err)
			}
			var want []byte
			for _, en := range l.Acked[vr.Tx()].Ents {
				if bytes.Equal(en.Key, key) {
					want = en.Value
				}
			}
			if !bytes.Equal(b, want) {
				return "get-wrong-value phase=" + phase, fmt.Sprintf("Get(%s)=%q want %q", key, b, want)
			}
		}
	}
	// proofs unchanged: dual proofs between the first kept tx and the last one
	if n >= 1 {
		src, err1 := st.ReadTxHeader(1, false, false)
		tgt, err2 := st.ReadTxHeader(n, false, false)
		if err1 != nil || err2 != nil {
			return "read-header-failed phase=" + phase, fmt.Sprint(err1, err2)
		}
		dp, err := st.DualProof(src, tgt)
		if err != nil || !store.VerifyDualProof(dp, 1, n, src.Alh(), tgt.Alh()) {
			return "dualproof-broken phase=" + phase, fmt.Sprintf("DualProof(1,%d) err=%v", n, err)
		}
	}
	return "", ""
}

func classify(s string) string {
	for i, r := range s {
		if r >= '0' && r <= '9' {
			s = s[:i]
			break
		}
	}
	return strings.ReplaceAll(strings.TrimSpace(s), " ", "_")
}

type caseA struct {
	Cfg  cfg
	Hist []int // shape index per tx
	Cut  int
	Cut2 int
}

func (k caseA) String() string {
	var h []string
	for _, s := range k.Hist {
		h = append(h, shapeNames[s])
	}
	return fmt.Sprintf("hist=%s cut=%d cut2=%d fileSize=%d io=%d", strings.Join(h, ""), k.Cut, k.Cut2, k.Cfg.FileSize, k.Cfg.IO)
}

func runA(k caseA, dir string) {
	os.RemoveAll(dir)
	os.MkdirAll(dir, 0755)
	vos.Reset(false)
	var sig, det string
	e := vsched.Run(nil, vsched.Options{MaxSteps: 2000000}, func() {
		st, err := store.Open(dir, opts(k.Cfg))
		if err != nil {
			sig, det = "open-failed", err.Error()
			return
		}
		l := storeh.NewLedger()
		exports := map[uint64][]byte{}
		tx := store.NewTx(st.MaxTxEntries(), st.MaxKeyLen())
		for i, s := range k.Hist {
			h, err := commitShape(st, i, shapes[s])
			if err != nil {
				sig, det = "commit-failed", err.Error()
				return
			}
			rec, err := storeh.ReadRec(st, h.ID, true)
			if err != nil {
				sig, det = "read-failed", err.Error()
				return
			}
			l.Acked[h.ID] = rec
			bs, err := st.ExportTx(h.ID, false, false, tx)
			if err != nil {
				sig, det = "export-before-truncation-failed", err.Error()
				return
			}
			exports[h.ID] = append([]byte{}, bs...)
		}
		if err := st.TruncateUptoTx(uint64(k.Cut)); err != nil {
			sig, det = "truncate-failed", fmt.Sprintf("TruncateUptoTx(%d): %v", k.Cut, err)
			return
		}
		if sig, det = checkAfterCut(st, l, exports, uint64(k.Cut), "first"); sig != "" {
			return
		}
		// repeated truncation is harmless
		cut := k.Cut
		if k.Cut2 > 0 {
			if err := st.TruncateUptoTx(uint64(k.Cut2)); err != nil {
				sig, det = "second-truncate-failed", err.Error()
				return
			}
			if k.Cut2 > cut {
				cut = k.Cut2
			}
			if sig, det = checkAfterCut(st, l, exports, uint64(cut), "second"); sig != "" {
				return
			}
		}
		// new commits work, restart keeps everything
		h, err := commitShape(st, 7, []int{20, 0})
		if err != nil {
			sig, det = "commit-after-truncation-failed", err.Error()
			return
		}
		rec, _ := storeh.ReadRec(st, h.ID, true)
		l.Acked[h.ID] = rec
		if err := st.Close(); err != nil {
			sig, det = "close-failed", err.Error()
			return
		}
		st, err = store.Open(dir, opts(k.Cfg))
		if err != nil {
			sig, det = "reopen-after-truncation-failed", err.Error()
			return
		}
		if sig, det = checkAfterCut(st, l, nil, uint64(cut), "reopen"); sig != "" {
			return
		}
		st.Close()
	})
	vos.CloseAll()
	if e.Failure != "" && sig == "" {
		first := strings.SplitN(e.Failure, "\n", 2)[0]
		if e.Deadlock {
			sig, det = "deadlock-after-truncation", e.Failure
		} else {
			sig, det = "failure "+first, e.Failure
		}
	}
	c.Eval(k.String())
	if sig != "" {
		c.Violate(lib.Violation{Sig: sig + " " + k.String(), Detail: det, Replay: k})
	}
}

// ---------- part B: schedules ----------

func scenarioB(name string, cf cfg, lens [2][]int, back ...uint64) sched.Scenario {
	return sched.Scenario{Name: name, MaxSteps: 400000, Body: func(dir string) string {
		st, err := store.Open(dir, opts(cf))
		if err != nil {
			sched.Report("open-failed", err.Error())
			return "open-failed"
		}
		l := storeh.NewLedger()
		for i := 0; i < 2; i++ {
			h, err := commitShape(st, i, []int{20})
			if err != nil {
				sched.Report("setup-failed", err.Error())
				return "setup"
			}
			rec, _ := storeh.ReadRec(st, h.ID, true)
			l.Acked[h.ID] = rec
		}
		res := make([]string, 2)
		vsched.Focus()
		for w := 0; w < 2; w++ {
			w := w
			vsched.Spawn(func() {
				h, err := commitShape(st, 4+w, lens[w])
				if err != nil {
					res[w] = "err:" + err.Error()
					return
				}
				res[w] = fmt.Sprintf("tx%d", h.ID)
			})
		}
		var cut, lastAtTrunc uint64 // lastAtTrunc: newest committed tx when the truncation started (later ids were in flight at best)
		var terr error
		vsched.Spawn(func() {
			// the truncator picks the newest committed transaction as cut (as a retention policy would), or the one
			// `back` transactions before it
			cut = st.LastCommittedTxID()
			lastAtTrunc = cut
			if len(back) > 0 && cut > back[0] {
				cut -= back[0]
			}
			terr = st.TruncateUptoTx(cut)
		})
		vsched.Join()
		if terr != nil {
			sched.Report("truncate-failed", terr.Error())
		}
		// every transaction at or after the cut (incl. those committed by writers that raced with the truncation)
		// must be readable with its values
		n := st.LastCommittedTxID()
		for id := cut; id <= n; id++ {
			rec, err := storeh.ReadRec(st, id, true)
			if err != nil {
				// classify: the lost tx has a larger id than the cut tx but its values were appended (lower offset in the
				// same value log) before the cut tx's: the writer was still in flight when the tombstone was computed
				cause := "other"
				tx := store.NewTx(st.MaxTxEntries(), st.MaxKeyLen())
				firstOff := func(id uint64) int64 { // offset of the first non-empty value (-1: none)
					if st.ReadTx(id, false, tx) == nil {
						for _, e := range tx.Entries() {
							if e.VLen() > 0 {
								return e.VOff()
							}
						}
					}
					return -1
				}
				if cutOff, off := firstOff(cut), firstOff(id); id > lastAtTrunc && cutOff >= 0 && off >= 0 && off < cutOff {
					cause = "values-appended-before-the-cut-tx-by-a-later-committer"
				}
				sched.Report("value-lost-at-or-after-cut cause="+cause, fmt.Sprintf("TruncateUptoTx(%d) raced with committers: tx %d (>= cut) is unreadable afterwards: %v (results %v)", cut, id, err, res))
				break
			}
			l.Acked[id] = rec
		}
		if sig, det := checkAfterCut(st, l, nil, cut, "concurrent"); sig != "" && !strings.HasPrefix(sig, "history-after-truncation") {
			sched.Report(sig, det)
		}
		out := fmt.Sprintf("%v cut=%d", res, cut)
		st.Close()
		return out
	}}
}

func main() {
	c = lib.New("C14", "model_checking", 170*time.Second, 25*time.Minute)
	// library goroutines that take part in the workload-thread phase: syncer, value-appending precommit goroutines
	vsched.WorkDaemons = []string{"store.OpenWith", "(*ImmuStore).precommit", "(*ImmuStore).preCommitWith"}
	c.Assume("store level (embedded/store); the SQL catalog / document collection copy performed by pkg/database's truncator is exercised by the repository's own tests only")
	cfgs := []cfg{{64, 1}, {128, 2}, {64, 3}}
	maxLen := 4
	if c.Thorough() {
		maxLen = 5
		cfgs = append(cfgs, cfg{256, 2}, cfg{64, 2})
	}
	if c.ReplayPath != "" {
		var k caseA
		var r struct {
			Scenario string `json:"scenario"`
		}
		c.LoadReplay(&r)
		if r.Scenario == "" {
			c.LoadReplay(&k)
			dir := lib.Scratch("c14")
			runA(k, dir)
			os.RemoveAll(dir)
			c.Finish("replay", false)
		}
	}
	// (…-e0 / …-e1: one committer's transaction starts with an empty value, which carries no value-log offset)
	bNames := []string{"race-fs32-io1", "race-fs32-io2", "race-fs64-io1", "race-fs32-io1-e0", "race-fs32-io1-e1", "race-fs32-io2-e0", "race-fs32-io1-back1", "race-fs32-io2-back1"}
	scs := []sched.Scenario{scenarioB(bNames[0], cfg{32, 1}, [2][]int{{20}, {30}}), scenarioB(bNames[1], cfg{32, 2}, [2][]int{{20}, {30}}), scenarioB(bNames[2], cfg{64, 1}, [2][]int{{30}, {30}}),
		scenarioB(bNames[3], cfg{32, 1}, [2][]int{{0, 30}, {30}}), scenarioB(bNames[4], cfg{32, 1}, [2][]int{{30}, {0, 30}}), scenarioB(bNames[5], cfg{32, 2}, [2][]int{{0, 30}, {30}}),
		scenarioB(bNames[6], cfg{32, 1}, [2][]int{{20}, {30}}, 1), scenarioB(bNames[7], cfg{32, 2}, [2][]int{{30}, {30}}, 1)}
	// ---- part A in shard processes (the scheduler is process-global), merged by the parent
	if !c.IsChild() && c.ReplayPath == "" {
		var jobs []sched.Job
		bound, budget := 1, 9*time.Second
		if c.Thorough() {
			bound, budget = 2, 3*time.Minute
		}
		for _, n := range bNames {
			jobs = append(jobs, sched.Job{Scenario: n, Bound: bound, Budget: budget})
		}
		if os.Getenv("VERIF_PART") != "B" && !sched.IsWorker() {
			// part A gets at most 55% of the time budget
			full := c.Deadline
			c.Deadline = c.Start.Add(full.Sub(c.Start) * 55 / 100)
			c.Delegate()
			c.Deadline = full
		}
		sched.Main(c, scs, jobs, rule)
		return
	}
	if c.IsChild() {
		var cases []caseA
		for n := 1; n <= maxLen; n++ {
			var gen func(h []int)
			gen = func(h []int) {
				if len(h) == n {
					for _, cf := range cfgs {
						for cut := 1; cut <= n; cut++ {
							cut2 := 0
							if cut > 1 {
								cut2 = cut - 1
							} else {
								cut2 = cut
							}
							cases = append(cases, caseA{cf, append([]int{}, h...), cut, cut2})
						}
					}
					return
				}
				for s := range shapes {
					gen(append(h, s))
				}
			}
			gen(nil)
		}
		dir := lib.Scratch("c14")
		c.ParallelFor(len(cases), func(i int) {
			if c.Expired() {
				return
			}
			runA(cases[i], dir)
			if i%997 == 0 {
				c.Sample(cases[i].String())
			}
		})
		if c.Expired() {
			c.CapHit("part A: time budget reached")
		}
		c.AddStates(c.Evals(), c.Evals())
		os.RemoveAll(dir)
		c.Finish(rule, !c.Expired())
	}
	// replay of a part-B schedule
	sched.Main(c, scs, nil, rule)
}

const rule = "A: every history of 1..N transactions over 4 entry shapes (incl. empty values first / in the middle) x every cut point x a second cut x chunk-size / IO-concurrency configurations, run under the controlled scheduler: after truncation every tx >= cut is byte-identical (values included), all headers/Alh/chain intact, ExportTx of every tx terminates and equals the pre-truncation export for ids >= cut, proofs verify, new commits and restart work; a leaked lock is a deadlock. B: every schedule (preemption-bounded) of two committers + truncator + reader."
